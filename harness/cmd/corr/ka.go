package main

// Keep-alive scenarios on the real broker in real time (C19): a client that
// negotiated keep-alive K sends `count` packets `interval` apart and then falls
// silent; a witness subscribed to its will topic tells whether the end was
// treated as abnormal.  Scenarios run concurrently (`start` returns at once).

import (
	"bufio"
	"fmt"
	"math/rand"
	"net"
	"sync"
	"sync/atomic"
	"time"

	"github.com/mdzio/go-mqtt/service"
)

var kaSetupMu sync.Mutex

type kaCore struct {
	mu  sync.Mutex
	res map[int]chan string
}

func init() {
	cores["ka"] = func() core { brokerInit(); return &kaCore{res: map[int]chan string{}} }
	gens["ka"] = genKA
}

func (k *kaCore) handle(ws []string) string {
	switch ws[0] {
	case "reset":
		return "reset"
	case "start":
		id, K, iv, cnt, kind := atoi(ws[1]), atoi(ws[2]), atoi(ws[3]), atoi(ws[4]), ws[5]
		ch := make(chan string, 1)
		k.mu.Lock()
		k.res[id] = ch
		k.mu.Unlock()
		go func() { ch <- kaScenario(id, K, time.Duration(iv)*time.Millisecond, cnt, kind) }()
		return "started"
	case "wait":
		k.mu.Lock()
		ch := k.res[atoi(ws[1])]
		k.mu.Unlock()
		if ch == nil {
			return "bad-op"
		}
		select {
		case r := <-ch:
			return r
		case <-time.After(120 * time.Second):
			return "hang"
		}
	}
	return "bad-op"
}

func kaConnect(svr *service.Server, id int, c wConnect) (*rawClient, bool) {
	cl, sv := net.Pipe()
	rc := newRawClient(id, cl)
	rc.stopped = make(chan struct{})
	stoppedMu.Lock()
	stoppedChans[sv] = rc.stopped
	stoppedMu.Unlock()
	go svr.VerifServe(sv)
	rc.write(c.encode())
	rc.waitUntil(func() bool { return len(rc.items) > 0 || rc.eof }, brokerWait)
	it := rc.take()
	return rc, len(it) > 0 && (it[0] == "CONNACK 0 0" || it[0] == "CONNACK 1 0")
}

func kaScenario(id, K int, interval time.Duration, count int, kind string) string {
	n := atomic.AddInt64(&providerSeq, 1)
	name := fmt.Sprintf("verifka%d", n)
	// the library's provider registries are plain package-level maps (finding G4): registration writes them, a
	// server reads them once, at its first connection (checkConfiguration); scenarios start concurrently, so
	// both happen under one harness lock (a 29-scenario run crashed with "concurrent map read and map write")
	kaSetupMu.Lock()
	setupLocked := true
	unlockSetup := func() {
		if setupLocked {
			setupLocked = false
			kaSetupMu.Unlock()
		}
	}
	defer unlockSetup()
	registerProviders(name)
	svr := &service.Server{ConnectTimeout: 1, SessionsProvider: name, TopicsProvider: name, Authenticator: "verifAuth"}
	deaf := kind == "deafsub" || kind == "deafecho" || kind == "deafflood"
	if deaf {
		svr.BufferSize = 16384 // small rings: the deaf subscriber's outgoing ring is full well before its deadline
	}
	willTopic := []byte(fmt.Sprintf("will/%d", id))
	wit, ok := kaConnect(svr, 1, wConnect{protoName: []byte("MQTT"), version: 4, clean: true, clientID: []byte("witness"), keepAlive: 300})
	unlockSetup()
	if !ok {
		return "witness-refused"
	}
	wit.write(wSubscribe(1, [][]byte{willTopic}, []int{0}))
	wit.waitUntil(func() bool { return len(wit.items) > 0 }, brokerWait)
	wit.take()
	subject := wConnect{protoName: []byte("MQTT"), version: 4, clean: kind != "resumed", clientID: []byte("subject"),
		keepAlive: K, will: &wWill{topic: willTopic, payload: []byte("gone"), qos: 0}}
	if kind == "resumed" {
		// the subject has been here before: a persistent session ended by DISCONNECT (which discards the
		// will of THAT connection), resumed by a byte-identical CONNECT - the will of the new connection
		// is in force again and silence on it is an abnormal end like any other
		first, ok := kaConnect(svr, 4, subject)
		if !ok {
			return "subject-refused"
		}
		first.write([]byte{0xe0, 0x00})
		first.waitUntil(func() bool { return first.eof }, brokerWait)
		first.conn.Close()
	}
	cl, ok := kaConnect(svr, 2, subject)
	if !ok {
		return "subject-refused"
	}
	eff := K
	if eff == 0 {
		eff = 30
	}
	d := time.Duration(eff)*time.Second + time.Duration(eff)*time.Second/5
	last := time.Now()
	active := "ok"
	if kind == "deafecho" || kind == "deafflood" {
		// the subject subscribes to a topic it publishes to itself, stops reading and sends until its own
		// outgoing ring is full (its processor is then parked behind its own client), then falls silent.
		//   deafecho:  just enough packets for that (16 KiB ring, 4 packets fit, the echo of the 5th parks the
		//              processor); the incoming ring keeps room, so the receiver is inside a socket read with
		//              the keep-alive deadline armed when the client falls silent (finding F7)
		//   deafflood: the client keeps sending until its writes block (at most 16 packets): the incoming ring
		//              fills up COMPLETELY as well (the 5th to the 8th packet and the first bytes of the 9th) and
		//              the receiver waits because the ring is full - no socket read is pending, no deadline is
		//              armed (F8).  (Since 8f682d1 the receiver reads as long as ONE byte is free; before, it
		//              stopped when less than a read block was free and 8 packets were enough.)
		topic := []byte(fmt.Sprintf("echo/%d", id))
		// paused before the SUBSCRIBE: the reader goroutine's pending Read takes the SUBACK and nothing after it
		cl.setPaused(true)
		cl.write(wSubscribe(1, [][]byte{topic}, []int{0}))
		cl.waitUntil(func() bool { return len(cl.items) > 0 }, brokerWait)
		pkt := wPub{qos: 0, topic: topic, payload: make([]byte, 4000)}.encode()
		n := 16384/len(pkt) + 1
		if kind == "deafflood" {
			n = 16 // never reached: the write of the 9th packet blocks and its deadline ends the loop
		}
		for i := 0; i < n; i++ {
			cl.conn.SetWriteDeadline(time.Now().Add(300 * time.Millisecond))
			if _, err := cl.conn.Write(pkt); err != nil {
				break
			}
			last = time.Now()
		}
		count = 0
	}
	if kind == "silentsub" || kind == "deafsub" {
		// the subject subscribes to a busy topic and then sends nothing; a third client publishes to
		// it every `interval` — traffic TO a client is not activity OF the client
		topic := []byte(fmt.Sprintf("busy/%d", id))
		cl.write(wSubscribe(1, [][]byte{topic}, []int{0}))
		last = time.Now()
		payload := []byte{0}
		if kind == "deafsub" {
			// the subject also stops READING: its outgoing ring fills up with the busy topic's traffic and
			// the connection's processor ends up parked behind its own client
			cl.setPaused(true)
			payload = make([]byte, 4000)
		}
		pub, ok := kaConnect(svr, 3, wConnect{protoName: []byte("MQTT"), version: 4, clean: true, clientID: []byte("busy"), keepAlive: 300})
		if !ok {
			return "publisher-refused"
		}
		stop := make(chan struct{})
		defer close(stop)
		go func() {
			for i := 0; ; i++ {
				select {
				case <-stop:
					pub.conn.Close()
					return
				case <-time.After(interval):
				}
				payload[0] = byte(i)
				pub.write(wPub{qos: 0, topic: topic, payload: payload}.encode())
			}
		}()
		count = 0
	}
	for i := 0; i < count; i++ {
		gap := interval
		if kind == "irr" && i%2 == 0 {
			gap = interval * 2 / 5 // irregular rhythm: a short gap, then a long one (all below K)
		}
		if cl.waitUntil(func() bool { return cl.eof }, gap) {
			active = "expired"
			break
		}
		var err error
		if kind == "ping" || kind == "irr" || kind == "resumed" {
			err = cl.write([]byte{0xc0, 0x00})
		} else {
			err = cl.write(wPub{qos: 0, topic: []byte("t"), payload: []byte{byte(i)}}.encode())
		}
		if err != nil {
			active = "expired"
			break
		}
		last = time.Now()
	}
	closed := false
	if deaf {
		// a paused reader cannot see EOF: the end is observed through the teardown notification
		select {
		case <-cl.stopped:
			cl.mu.Lock()
			cl.eof = true
			cl.mu.Unlock()
			closed = true
		case <-time.After(d + 3*time.Second):
		}
	} else {
		closed = cl.waitUntil(func() bool { return cl.eof }, d+3*time.Second)
	}
	elapsed := time.Since(last)
	window := "ok"
	if !closed {
		window = "never-closed"
	} else if elapsed < d-200*time.Millisecond {
		window = fmt.Sprintf("early(%dms)", elapsed.Milliseconds())
	} else if elapsed > d+4*time.Second { // generous: an overloaded machine notices the expiry late
		window = fmt.Sprintf("late(%dms)", elapsed.Milliseconds())
	}
	will := 0
	willWait := 3 * time.Second
	if !closed {
		willWait = time.Second // no teardown, no will: do not wait long for it
	}
	if wit.waitUntil(func() bool {
		for _, it := range wit.items {
			if len(it) > 4 && it[:4] == "PUB " {
				return true
			}
		}
		return false
	}, willWait) {
		will = 1
	}
	wit.conn.Close()
	cl.conn.Close()
	if active == "ok" {
		final := "expired"
		if !closed {
			final = "alive"
		}
		return fmt.Sprintf("active=ok final=%s will=%d window=%s", final, will, window)
	}
	return fmt.Sprintf("active=expired will=%d window=%s", will, window)
}

// genKA: n scenarios started together, then awaited.  Keep-alive values are
// small so a run takes seconds.
func genKA(seed int64, n int, tier string, w *bufio.Writer) {
	r := rand.New(rand.NewSource(seed))
	fmt.Fprintln(w, "ka reset")
	type scn struct{ k, iv, cnt int; kind string }
	// deafsub / deafecho: the subject has stopped READING (own outgoing ring full; deafecho: its own processor
	// parked in it - finding F7, fixed by b77088f); deafflood (thorough): both rings completely full, the receiver
	// waits because the incoming ring is full and no read deadline is armed - open finding F8
	fixed := []scn{{1, 0, 0, "ping"}, {1, 400, 4, "ping"}, {1, 500, 3, "pub"}, {1, 2100, 2, "ping"}, {2, 900, 3, "pub"}, {1, 900, 3, "ping"},
		{1, 300, 0, "silentsub"}, {1, 300, 1, "resumed"}, {2, 1900, 4, "irr"}, {1, 950, 4, "irr"}, {1, 100, 0, "deafsub"}, {1, 100, 0, "deafecho"},
		{2, 100, 0, "deafecho"}, {1, 100, 0, "deafflood"}, {2, 150, 0, "deafsub"}, {1, 400, 2, "resumed"}}
	for i := 0; i < n; i++ {
		var s scn
		if i < len(fixed) {
			s = fixed[i]
		} else {
			k := 1 + r.Intn(2)
			s = scn{k, 100 + r.Intn(k*2600), 1 + r.Intn(3), pick(r, []string{"ping", "pub"})}
			switch r.Intn(6) {
			case 0:
				s = scn{k, 100 + r.Intn(600), 0, "silentsub"}
			case 1:
				s = scn{k, k*1000 - 50 - r.Intn(k*300), 2 + r.Intn(3), "irr"}
			case 2:
				s = scn{k, 100 + r.Intn(200), 0, pick(r, []string{"deafsub", "deafecho"})}
			case 3:
				s = scn{k, 100 + r.Intn(600), r.Intn(3), "resumed"}
			}
		}
		fmt.Fprintf(w, "ka start %d %d %d %d %s\n", i+1, s.k, s.iv, s.cnt, s.kind)
	}
	for i := 0; i < n; i++ {
		fmt.Fprintf(w, "ka wait %d\n", i+1)
	}
}
