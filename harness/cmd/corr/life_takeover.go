package main

// Held take-over (C10, C16, C09): a CONNECT with the client identifier of a connection whose teardown is
// pending - held by a third connection whose client does not read - on the real broker.
//
//	life takeover <variant>
//
// Everybody: subscriber S ("slow") on topic w stops reading; flooder F publishes 60 x 1000 bytes on w: S's
// outgoing ring is full and F's processor is parked in it.  Then
//
//	resume    A (client id X, CleanSession=1, will on w) is closed abruptly: its stop() parks publishing the will
//	          into S's ring.  B: CONNECT X, CleanSession=0 - not answered while A's teardown is pending (early=0).
//	          S reads again: A's teardown completes (torn=1), S gets the will (will=1), B gets CONNACK with
//	          SessionPresent=0 (sp2), subscribes `keep`, DISCONNECTs.  C: CONNECT X, CleanSession=0 must get
//	          SessionPresent=1 (sp3) and the subscription (a PUBLISH on `keep` arrives: sub3=1).
//	srvclose  the same up to B's pending CONNECT; then Server.Close: it has to return (srvclose=1) - it is what
//	          ends the wait (it closes every outgoing ring first).
//	disc      A (client id X, CleanSession=1, will on will/x, witness W on will/#) PUBLISHes on w - its processor
//	          parks in S's ring - and sends DISCONNECT behind it.  B: CONNECT X: the take-over's stop() waits for
//	          A's processor (early=0).  S reads again: the processor delivers, processes the DISCONNECT, ends; the
//	          teardown completes (torn=1) and publishes NO will (will=0): a DISCONNECT packet was received.
//
// Output: held=<0|1> early=<0|1> [torn=. will=. sp2=. [sp3=. sub3=.]] srvclose=<0|1|panic> goroutines-left=<n>
// held: A's teardown had not finished just before the hold-up was ended (the scenario's premise).
// Every wait is on an event (a packet, the teardown-finished notification, the return of Server.Close) with a
// timeout far above what the unchanged tree needs; the two "nothing happens" observations (held, early) are
// bounded waits of 300 / 700 ms on a broker that cannot proceed: S's reader is stopped, its ring and the
// unbuffered pipe behind it are full.

import (
	"bufio"
	"fmt"
	"math/rand"
	"os"
	"runtime/debug"
	"strings"
	"sync/atomic"
	"time"

	"github.com/mdzio/go-mqtt/service"
)

// rawConnectAsync writes the CONNECT and does not wait for the answer.
func rawConnectAsync(svr *service.Server, id int, c wConnect) *rawClient {
	rc, _ := rawConnectWith(svr, id, c, false)
	return rc
}

func connackOf(c *rawClient, d time.Duration) (string, bool) {
	ok := c.waitUntil(func() bool {
		for _, it := range c.items {
			if strings.HasPrefix(it, "CONNACK") {
				return true
			}
		}
		return c.eof
	}, d)
	if !ok {
		return "", false
	}
	for _, it := range c.take() {
		if strings.HasPrefix(it, "CONNACK") {
			return it, true
		}
	}
	return "", false
}

// spOf: the SessionPresent bit of an accepting CONNACK ("CONNACK <sp> 0"), "-" for anything else
func spOf(connack string, ok bool) string {
	w := strings.Fields(connack)
	if !ok || len(w) != 3 || w[2] != "0" {
		return "-"
	}
	return w[1]
}

func hasPub(c *rawClient, topic, payload string) bool {
	want := " " + hexOf([]byte(topic)) + " "
	for _, it := range c.items {
		if strings.HasPrefix(it, "PUB ") && strings.Contains(it, want) && strings.HasSuffix(it, " "+hexOf([]byte(payload))) {
			return true
		}
	}
	return false
}

func lifeTakeover(variant string) string {
	if variant != "resume" && variant != "srvclose" && variant != "disc" {
		return "bad-op"
	}
	before := libGoroutines()
	svr := newServer(16384)
	var all []*rawClient
	conn := func(id int, c wConnect) (*rawClient, bool) {
		rc, ok := rawConnect(svr, id, c)
		all = append(all, rc)
		return rc, ok
	}
	wit, ok := conn(1, simpleConnect("witness", 300, nil))
	if !ok {
		return "refused"
	}
	subscribeAndWait(wit, "will/#")
	slow, ok := conn(2, simpleConnect("slow", 300, nil))
	if !ok {
		return "refused"
	}
	subscribeAndWait(slow, "w")
	fl, ok := conn(3, simpleConnect("flood", 300, nil))
	if !ok {
		return "refused"
	}
	willTopic := "w"
	if variant == "disc" {
		willTopic = "will/x"
	}
	a, ok := conn(4, simpleConnect("X", 300, &wWill{topic: []byte(willTopic), payload: []byte("gone")}))
	if !ok {
		return "refused"
	}
	// registration in Server.svcs follows the CONNACK
	time.Sleep(100 * time.Millisecond)
	slow.setPaused(true)
	// 60 packets are more than S's outgoing ring, F's incoming ring and the pipes hold: the flooder's writes
	// stall when F's processor is parked in S's ring.  Wait for that (not for a fixed time).
	var sent int64
	go func() {
		pkt := wPub{topic: []byte("w"), payload: make([]byte, 1000)}.encode()
		for i := 0; i < 60; i++ {
			fl.conn.SetWriteDeadline(time.Now().Add(60 * time.Second))
			if _, err := fl.conn.Write(pkt); err != nil {
				return
			}
			atomic.AddInt64(&sent, 1)
		}
	}()
	for last, same, i := int64(-1), 0, 0; i < 100 && same < 4; i++ {
		time.Sleep(50 * time.Millisecond)
		if n := atomic.LoadInt64(&sent); n == last && n >= 17 {
			same++
		} else {
			last, same = n, 0
		}
	}

	if variant == "disc" {
		// the PUBLISH parks A's processor behind S's full ring; the DISCONNECT waits in A's incoming ring
		a.write(wPub{topic: []byte("w"), payload: []byte("from-A")}.encode())
		time.Sleep(100 * time.Millisecond)
		a.write([]byte{0xe0, 0x00})
		time.Sleep(100 * time.Millisecond)
	} else {
		// abrupt end: stop() runs on A's processor goroutine and parks in the will publish
		a.conn.Close()
		time.Sleep(300 * time.Millisecond)
	}

	x := simpleConnect("X", 300, nil)
	x.clean = false
	bc := rawConnectAsync(svr, 5, x)
	all = append(all, bc)
	ack, got := connackOf(bc, 700*time.Millisecond)
	early := got
	held := !a.tornDown()
	res := []string{"held=" + b01(held), "early=" + b01(early)}

	srvClosed := make(chan struct{})
	srvPanic := false
	closeServer := func() {
		go func() {
			defer func() {
				if r := recover(); r != nil {
					fmt.Fprintf(os.Stderr, "harness: Server.Close panicked: %v\n%s\n", r, debug.Stack())
					srvPanic = true
				}
				close(srvClosed)
			}()
			svr.Close()
		}()
	}
	waitClose := func() {
		select {
		case <-srvClosed:
			if srvPanic {
				res = append(res, "srvclose=panic")
			} else {
				res = append(res, "srvclose=1")
			}
		case <-time.After(lifeWait):
			res = append(res, "srvclose=0")
			lifeDump()
		}
	}

	if variant == "srvclose" {
		closeServer()
		waitClose()
	} else {
		// the hold-up ends: S reads again
		slow.setPaused(false)
		torn := stoppedWithin(a, lifeWait)
		res = append(res, "torn="+b01(torn))
		if !got {
			ack, got = connackOf(bc, lifeWait)
		}
		if variant == "disc" {
			will := wit.waitUntil(func() bool { return hasPub(wit, "will/x", "gone") }, 1200*time.Millisecond)
			res = append(res, "will="+b01(will), "sp2="+spOf(ack, got))
		} else {
			will := slow.waitUntil(func() bool { return hasPub(slow, "w", "gone") }, lifeWait)
			res = append(res, "will="+b01(will), "sp2="+spOf(ack, got))
			// state kept from B's CleanSession=0 connection must survive A's late end
			bc.write(wSubscribe(1, [][]byte{[]byte("keep")}, []int{0}))
			bc.waitUntil(func() bool { return len(bc.items) > 0 || bc.eof }, brokerWait)
			bc.take()
			bc.write([]byte{0xe0, 0x00})
			stoppedWithin(bc, lifeWait)
			cc := rawConnectAsync(svr, 6, x)
			all = append(all, cc)
			ack3, ok3 := connackOf(cc, lifeWait)
			res = append(res, "sp3="+spOf(ack3, ok3))
			// the CONNACK is written before start() restores the subscriptions: C's first answer (PINGRESP) is behind them
			(&brokerCore{clients: map[int]*rawClient{}}).barrier(cc)
			wit.write(wPub{topic: []byte("keep"), payload: []byte("kept")}.encode())
			sub3 := cc.waitUntil(func() bool { return hasPub(cc, "keep", "kept") }, 1200*time.Millisecond)
			res = append(res, "sub3="+b01(sub3))
		}
		for _, c := range all {
			c.setPaused(false)
			c.conn.Close()
		}
		for _, c := range all {
			stoppedWithin(c, lifeWait)
		}
		closeServer()
		waitClose()
	}
	// clients go away (a connection registered after Server.Close copied its list ends here)
	for _, c := range all {
		c.setPaused(false)
		c.conn.Close()
	}
	select {
	case <-srvClosed:
	case <-time.After(lifeWait):
	}
	left := 0
	for i := 0; i < 60; i++ {
		left = libGoroutines() - before
		if left <= 0 {
			break
		}
		time.Sleep(50 * time.Millisecond)
	}
	if left < 0 {
		left = 0
	}
	res = append(res, fmt.Sprintf("goroutines-left=%d", left))
	return strings.Join(res, " ")
}

// genLifeTakeover*: the held take-over scenarios, the property's own first: C10 resume (the session kept from the
// new connection survives the old connection's late end), C16 srvclose (Server.Close returns while a take-over
// waits), C09 disc (a DISCONNECT received before the take-over: no will).
func genTakeover(first []string) func(seed int64, n int, tier string, w *bufio.Writer) {
	return func(seed int64, n int, tier string, w *bufio.Writer) {
		r := rand.New(rand.NewSource(seed))
		fmt.Fprintln(w, "life reset")
		for i := 0; i < n; i++ {
			v := ""
			if i < len(first) {
				v = first[i]
			} else {
				v = pick(r, first)
			}
			fmt.Fprintf(w, "life takeover %s\n", v)
		}
	}
}

func init() {
	gens["life-takeover-sess"] = genTakeover([]string{"resume", "srvclose", "disc"})
	gens["life-takeover-close"] = genTakeover([]string{"srvclose", "resume", "disc"})
	gens["life-takeover-will"] = genTakeover([]string{"disc", "resume", "srvclose"})
}
