package main

import (
	"encoding/hex"
	"math/rand"
	"strconv"
)

func hexOf(b []byte) string {
	if len(b) == 0 {
		return "-"
	}
	return hex.EncodeToString(b)
}

func unhex(s string) []byte {
	if s == "-" {
		return []byte{}
	}
	b, err := hex.DecodeString(s)
	if err != nil {
		panic("bad hex " + s)
	}
	return b
}

func atoi(s string) int {
	n, err := strconv.Atoi(s)
	if err != nil {
		panic("bad int " + s)
	}
	return n
}

func boolStr(b bool) string {
	if b {
		return "true"
	}
	return "false"
}

func pick[T any](r *rand.Rand, xs []T) T { return xs[r.Intn(len(xs))] }
