package main

// Core C — sessions.Ackqueue through its exported API.

import (
	"bufio"
	"fmt"
	"math/rand"
	"strings"

	"github.com/mdzio/go-mqtt/message"
	"github.com/mdzio/go-mqtt/sessions"
)

type ackqCore struct {
	q *sessions.Ackqueue
}

func newQueue() *sessions.Ackqueue {
	s := &sessions.Session{}
	c := message.NewConnectMessage()
	c.SetVersion(4)
	c.SetClientID([]byte("q"))
	c.SetCleanSession(true)
	if err := s.Init(c); err != nil {
		panic(err)
	}
	return s.Pub1ack
}

func init() {
	cores["ackq"] = func() core { return &ackqCore{q: newQueue()} }
	gens["ackq"] = genAckq
	gens["ackq-sweep"] = genAckqSweep
	gens["ackq-sweep-ping"] = genAckqSweepPing
}

func scribble(b []byte) {
	for i := range b {
		b[i] = 0xAA
	}
}

func decodeAs(t message.Type, b []byte) message.Message {
	m, err := t.New()
	if err != nil {
		panic(err)
	}
	if _, err := m.Decode(b); err != nil {
		panic(fmt.Sprintf("harness: cannot decode %x as %s: %v", b, t, err))
	}
	return m
}

func (c *ackqCore) handle(ws []string) string {
	switch ws[0] {
	case "reset":
		c.q = newQueue()
		return "reset"
	case "wait":
		var msg message.Message
		var buf []byte
		tag := atoi(ws[len(ws)-1])
		switch ws[1] {
		case "pub":
			qos, id := atoi(ws[2]), atoi(ws[3])
			if ws[4] == "!" {
				// a PUBLISH that cannot be serialised: built from fields without a topic name
				p := message.NewPublishMessage()
				p.SetPayload([]byte("x"))
				p.SetQoS(byte(qos))
				p.SetPacketID(uint16(id))
				msg = p
			} else {
				buf = unhex(ws[4])
				msg = decodeAs(message.PUBLISH, buf)
			}
		case "sub":
			buf = unhex(ws[3])
			msg = decodeAs(message.SUBSCRIBE, buf)
		case "unsub":
			buf = unhex(ws[3])
			msg = decodeAs(message.UNSUBSCRIBE, buf)
		case "ping":
			buf = unhex(ws[2])
			msg = decodeAs(message.PINGREQ, buf)
		case "other":
			msg = message.NewConnackMessage()
		}
		err := c.q.Wait(msg, tag)
		scribble(buf) // the queue must hold its own copy
		return c.withLen("ok " + boolStr(err == nil))
	case "ack":
		t := message.Type(atoi(ws[1]))
		buf := unhex(ws[3])
		msg := decodeAs(t, buf)
		err := c.q.Ack(msg)
		scribble(buf)
		return c.withLen("ok " + boolStr(err == nil))
	case "acked":
		var parts []string
		for _, a := range c.q.Acked() {
			tag := 0
			if a.OnComplete != nil {
				tag = a.OnComplete.(int)
			}
			parts = append(parts, fmt.Sprintf("%d,%d,%d,%s,%s,%d", a.Mtype, a.State, a.Pktid, hexOf(a.Msgbuf), hexOf(a.Ackbuf), tag))
		}
		return c.withLen("rel [" + strings.Join(parts, ";") + "]")
	}
	return "bad-op"
}

func (c *ackqCore) withLen(s string) string {
	n, cp := c.q.VerifLenCap()
	return fmt.Sprintf("%s n=%d cap=%d", s, n, cp)
}

// ---- generation -----------------------------------------------------------

func encMsg(m message.Message) []byte {
	b := make([]byte, m.Len())
	n, err := m.Encode(b)
	if err != nil {
		panic(err)
	}
	return b[:n]
}

func pubBytes(qos int, id int, r *rand.Rand) []byte {
	p := message.NewPublishMessage()
	p.SetTopic([]byte(pick(r, []string{"a", "a/b", "sensor/1/temp"})))
	pl := make([]byte, 1+r.Intn(6))
	r.Read(pl)
	p.SetPayload(pl)
	p.SetQoS(byte(qos))
	if qos > 0 {
		p.SetPacketID(uint16(id))
	}
	if r.Intn(8) == 0 {
		p.SetDup(true)
	}
	return encMsg(p)
}

func ackBytes(t message.Type, id int) []byte {
	switch t {
	case message.SUBACK:
		m := message.NewSubackMessage()
		m.SetPacketID(uint16(id))
		m.AddReturnCode(1)
		return encMsg(m)
	case message.PINGRESP:
		return encMsg(message.NewPingrespMessage())
	}
	m, _ := t.New()
	type setter interface{ SetPacketID(uint16) }
	m.(setter).SetPacketID(uint16(id))
	return encMsg(m)
}

type ackqGen struct {
	r      *rand.Rand
	w      *bufio.Writer
	flight []int // ids believed to be in flight, oldest first
	tag    int
	idmax  int
	pingy  bool // ping-heavy episode: several outstanding pings, PINGRESPs between the other acks
}

func (g *ackqGen) emit(format string, a ...interface{}) {
	fmt.Fprintf(g.w, "ackq "+format+"\n", a...)
}

func (g *ackqGen) inFlight(id int) bool {
	for _, x := range g.flight {
		if x == id {
			return true
		}
	}
	return false
}

func (g *ackqGen) wait() {
	r := g.r
	g.tag++
	if g.pingy && r.Intn(3) == 0 {
		g.emit("wait ping %s %d", hexOf(encMsg(message.NewPingreqMessage())), g.tag)
		return
	}
	id := 1 + r.Intn(g.idmax)
	if r.Intn(4) != 0 { // mostly fresh ids
		for k := 0; k < 4 && g.inFlight(id); k++ {
			id = 1 + r.Intn(g.idmax)
		}
	}
	switch k := r.Intn(20); {
	case k < 11:
		qos := 1 + r.Intn(2)
		if r.Intn(12) == 0 {
			qos = 0
		}
		if r.Intn(25) == 0 {
			g.emit("wait pub %d %d ! %d", qos, id, g.tag)
			return
		}
		g.emit("wait pub %d %d %s %d", qos, id, hexOf(pubBytes(qos, id, r)), g.tag)
		if qos > 0 && !g.inFlight(id) {
			g.flight = append(g.flight, id)
		}
	case k < 14:
		m := message.NewSubscribeMessage()
		m.SetPacketID(uint16(id))
		m.AddTopic([]byte("a/+"), byte(r.Intn(3)))
		g.emit("wait sub %d %s %d", id, hexOf(encMsg(m)), g.tag)
		if !g.inFlight(id) {
			g.flight = append(g.flight, id)
		}
	case k < 17:
		m := message.NewUnsubscribeMessage()
		m.SetPacketID(uint16(id))
		m.AddTopic([]byte("a/+"))
		g.emit("wait unsub %d %s %d", id, hexOf(encMsg(m)), g.tag)
		if !g.inFlight(id) {
			g.flight = append(g.flight, id)
		}
	case k < 19:
		g.emit("wait ping %s %d", hexOf(encMsg(message.NewPingreqMessage())), g.tag)
	default:
		g.emit("wait other %d", g.tag)
	}
}

var ackTypes = []message.Type{message.PUBACK, message.PUBREC, message.PUBREL, message.PUBCOMP, message.SUBACK, message.UNSUBACK}

func (g *ackqGen) ack() {
	r := g.r
	if r.Intn(12) == 0 || (g.pingy && r.Intn(3) == 0) {
		g.emit("ack %d 0 %s", message.PINGRESP, hexOf(ackBytes(message.PINGRESP, 0)))
		return
	}
	if r.Intn(40) == 0 { // a type Ack rejects
		g.emit("ack %d 0 %s", message.PINGREQ, hexOf(encMsg(message.NewPingreqMessage())))
		return
	}
	var id int
	switch {
	case len(g.flight) > 0 && r.Intn(10) < 5: // oldest first
		id = g.flight[0]
	case len(g.flight) > 0 && r.Intn(10) < 8:
		id = pick(r, g.flight)
	default:
		id = 1 + r.Intn(g.idmax)
	}
	t := pick(r, ackTypes)
	if r.Intn(3) == 0 {
		t = message.PUBACK
	}
	g.emit("ack %d %d %s", t, id, hexOf(ackBytes(t, id)))
}

func (g *ackqGen) acked() {
	g.emit("acked")
	// the generator does not know which were released; forget the oldest few so
	// the id pool keeps moving (state-awareness is only a bias, never an oracle)
	k := g.r.Intn(3)
	if k > len(g.flight) {
		k = len(g.flight)
	}
	g.flight = g.flight[k:]
}

// churn drives the ring through "grow while wrapped": fill to capacity, release a few from the
// head (so head != 0), fill again until the tail has wrapped and the ring is full, register one
// more (growth with head != 0), then acknowledge entries on both sides of the old wrap point.
func (g *ackqGen) churn(budget int) int {
	r := g.r
	used := 0
	next := 1
	var fl []int // ids in flight, oldest first (exact: this shape only uses terminal acks in order)
	capacity := 16
	reg := func() {
		g.tag++
		q := 1 + r.Intn(2)
		g.emit("wait pub %d %d %s %d", q, next, hexOf(pubBytes(q, next, r)), g.tag)
		fl = append(fl, next)
		next++
		used++
	}
	term := func(id int) {
		t := pick(r, []message.Type{message.PUBACK, message.PUBCOMP, message.PUBREL})
		g.emit("ack %d %d %s", t, id, hexOf(ackBytes(t, id)))
		used++
	}
	for rounds := 0; rounds < 3 && used < budget; rounds++ {
		for len(fl) < capacity {
			reg()
		}
		k := 1 + r.Intn(capacity-1)
		for i := 0; i < k; i++ {
			term(fl[i])
		}
		g.emit("acked")
		used++
		fl = fl[k:]
		for len(fl) < capacity {
			reg()
		}
		reg() // grows while head != 0 and the live window wraps
		capacity *= 2
		// acknowledge across the old wrap point, in and out of order, and collect
		for i := 0; i < 6 && len(fl) > 0; i++ {
			j := r.Intn(len(fl))
			if r.Intn(2) == 0 {
				j = 0
			}
			term(fl[j])
			if r.Intn(3) == 0 {
				g.emit("acked")
				used++
			}
		}
		g.emit("acked")
		used++
		// the generator does not track which were released after out-of-order acks: drain in order
		for _, id := range fl {
			term(id)
		}
		g.emit("acked")
		used++
		fl = nil
	}
	return used
}

func genAckq(seed int64, n int, tier string, w *bufio.Writer) {
	r := rand.New(rand.NewSource(seed))
	g := &ackqGen{r: r, w: w}
	for done := 0; done < n; {
		g.flight = nil
		g.pingy = r.Intn(4) == 0
		g.emit("reset")
		if r.Intn(4) == 0 {
			done += g.churn(n - done)
			continue
		}
		// episode shape: small id set (collisions), or burst (growth), or mixed
		shape := r.Intn(3)
		g.idmax = []int{4, 2000, 65535}[shape]
		eplen := 20 + r.Intn(200)
		if shape == 1 {
			eplen = 100 + r.Intn(900)
		}
		for i := 0; i < eplen && done < n; i++ {
			done++
			k := r.Intn(100)
			switch {
			case shape == 1 && i < eplen/2 && k < 85:
				g.wait()
			case k < 45:
				g.wait()
			case k < 82:
				g.ack()
			default:
				g.acked()
			}
		}
		g.emit("acked")
	}
}

// genAckqSweep enumerates every operation sequence of the given depth over a
// small alphabet (3 ids): exhaustive small-scope support for the tie.
func genAckqSweep(seed int64, depth int, tier string, w *bufio.Writer) {
	r := rand.New(rand.NewSource(1))
	var alphabet []string
	for id := 1; id <= 3; id++ {
		alphabet = append(alphabet, fmt.Sprintf("wait pub 1 %d %s %d", id, hexOf(pubBytes(1, id, r)), id))
		alphabet = append(alphabet, fmt.Sprintf("ack %d %d %s", message.PUBACK, id, hexOf(ackBytes(message.PUBACK, id))))
		alphabet = append(alphabet, fmt.Sprintf("ack %d %d %s", message.PUBREC, id, hexOf(ackBytes(message.PUBREC, id))))
	}
	alphabet = append(alphabet, "acked")
	idx := make([]int, depth)
	for {
		fmt.Fprintln(w, "ackq reset")
		for _, i := range idx {
			fmt.Fprintln(w, "ackq "+alphabet[i])
		}
		fmt.Fprintln(w, "ackq acked")
		k := depth - 1
		for k >= 0 {
			idx[k]++
			if idx[k] < len(alphabet) {
				break
			}
			idx[k] = 0
			k--
		}
		if k < 0 {
			break
		}
	}
}

// genAckqSweepPing enumerates every operation sequence of the given depth over the ping alphabet
// (register a ping, PINGRESP, collect) and one identifier-keyed request sharing the queue: any number
// of outstanding pings, PINGRESPs with none outstanding, collects at every point.
func genAckqSweepPing(seed int64, depth int, tier string, w *bufio.Writer) {
	r := rand.New(rand.NewSource(1))
	alphabet := []string{
		"wait ping " + hexOf(encMsg(message.NewPingreqMessage())) + " %d",
		fmt.Sprintf("ack %d 0 %s", message.PINGRESP, hexOf(ackBytes(message.PINGRESP, 0))),
		"acked",
		fmt.Sprintf("wait pub 1 1 %s 9", hexOf(pubBytes(1, 1, r))),
		fmt.Sprintf("ack %d 1 %s", message.PUBACK, hexOf(ackBytes(message.PUBACK, 1))),
	}
	idx := make([]int, depth)
	for {
		fmt.Fprintln(w, "ackq reset")
		for pos, i := range idx {
			if i == 0 {
				fmt.Fprintf(w, "ackq "+alphabet[i]+"\n", pos+1) // the position is the ping's tag
			} else {
				fmt.Fprintln(w, "ackq "+alphabet[i])
			}
		}
		fmt.Fprintln(w, "ackq acked")
		fmt.Fprintln(w, "ackq acked")
		k := depth - 1
		for k >= 0 {
			idx[k]++
			if idx[k] < len(alphabet) {
				break
			}
			idx[k] = 0
			k--
		}
		if k < 0 {
			break
		}
	}
}
