package main

// Generators for Core A.  Packets are generated as field records and serialised
// by the reference encoder below, which is written from the MQTT 3.1.1
// specification (sections 2 and 3) and does not call the library.

import (
	"bufio"
	"fmt"
	"math/rand"
	"strings"
)

func init() {
	gens["codec-wf"] = genCodecWF
	gens["codec-wfdec"] = func(seed int64, n int, tier string, w *bufio.Writer) { genCodecWFx(seed, n, tier, w, false) }
	gens["codec-mal"] = genCodecMal
	gens["codec-sweep"] = genCodecSweep
	gens["codec-build"] = genCodecBuild
	gens["codec-ids"] = genCodecIDs
}

// ---- reference encoder --------------------------------------------------------

type rec struct {
	t int
	// CONNECT
	ver                                int
	clean, will, wr, uf, pf            bool
	wq                                 int
	ka                                 int
	cid, wt, wm, un, pw                []byte
	// CONNACK
	sp bool
	rc int
	// PUBLISH
	dup, ret bool
	qos      int
	topic    []byte
	payload  []byte
	// identified packets
	id int
	// SUBSCRIBE / UNSUBSCRIBE / SUBACK
	topics [][]byte
	qoss   []int
	codes  []byte
}

func refVarint(n int) []byte {
	var out []byte
	for {
		d := byte(n % 128)
		n /= 128
		if n > 0 {
			d |= 0x80
		}
		out = append(out, d)
		if n == 0 {
			return out
		}
	}
}

func refStr(s []byte) []byte {
	return append([]byte{byte(len(s) >> 8), byte(len(s))}, s...)
}

func refU16(v int) []byte { return []byte{byte(v >> 8), byte(v)} }

// lenOffsets: offsets (within the whole packet) of every two-byte length prefix; used by the mutator
func (r *rec) body() (flags byte, body []byte, lps []int) {
	add := func(s []byte) {
		lps = append(lps, len(body))
		body = append(body, refStr(s)...)
	}
	switch r.t {
	case 1:
		if r.ver == 3 {
			add([]byte("MQIsdp"))
		} else {
			add([]byte("MQTT"))
		}
		body = append(body, byte(r.ver))
		cf := 0
		if r.clean {
			cf |= 2
		}
		if r.will {
			cf |= 4 | r.wq<<3
			if r.wr {
				cf |= 32
			}
		}
		if r.pf {
			cf |= 64
		}
		if r.uf {
			cf |= 128
		}
		body = append(body, byte(cf))
		body = append(body, refU16(r.ka)...)
		add(r.cid)
		if r.will {
			add(r.wt)
			add(r.wm)
		}
		if r.uf {
			add(r.un)
		}
		if r.pf {
			add(r.pw)
		}
	case 2:
		b := byte(0)
		if r.sp {
			b = 1
		}
		body = []byte{b, byte(r.rc)}
	case 3:
		if r.dup {
			flags |= 8
		}
		flags |= byte(r.qos << 1)
		if r.ret {
			flags |= 1
		}
		add(r.topic)
		if r.qos > 0 {
			body = append(body, refU16(r.id)...)
		}
		body = append(body, r.payload...)
	case 4, 5, 7, 11:
		body = refU16(r.id)
	case 6:
		flags = 2
		body = refU16(r.id)
	case 8:
		flags = 2
		body = refU16(r.id)
		for i, t := range r.topics {
			add(t)
			body = append(body, byte(r.qoss[i]))
		}
	case 9:
		body = append(refU16(r.id), r.codes...)
	case 10:
		flags = 2
		body = refU16(r.id)
		for _, t := range r.topics {
			add(t)
		}
	case 12, 13, 14:
	}
	return
}

func (r *rec) encode() []byte {
	flags, body, _ := r.body()
	out := []byte{byte(r.t<<4) | flags}
	out = append(out, refVarint(len(body))...)
	return append(out, body...)
}

// ---- record generation --------------------------------------------------------

var boundaryLens = []int{0, 1, 127, 128, 16383, 16384, 65535}

type cgen struct {
	r    *rand.Rand
	w    *bufio.Writer
	tier string
	n    int
}

func (g *cgen) emit(format string, a ...interface{}) {
	fmt.Fprintf(g.w, "codec "+format+"\n", a...)
	g.n++
}

// strLen draws a string length: mostly small, sometimes a boundary value.
func (g *cgen) strLen(min int) int {
	r := g.r
	k := r.Intn(100)
	var n int
	switch {
	case k < 70:
		n = r.Intn(12)
	case k < 85:
		n = r.Intn(300)
	case k < 97:
		n = pick(r, boundaryLens[:4])
		if r.Intn(3) == 0 {
			n += r.Intn(3) - 1
		}
	default:
		n = pick(r, boundaryLens)
		if r.Intn(3) == 0 {
			n += r.Intn(3) - 1
		}
	}
	if n < min {
		n = min
	}
	if n > 65535 {
		n = 65535
	}
	return n
}

// bytesOf draws n bytes; long strings are runs (so the op line stays short).
func (g *cgen) bytesOf(n int, alphabet string) []byte {
	r := g.r
	b := make([]byte, n)
	if n > 40 {
		c := alphabet[r.Intn(len(alphabet))]
		for i := range b {
			b[i] = c
		}
		// a few distinct bytes at both ends
		for i := 0; i < 3 && i < n; i++ {
			b[i] = alphabet[r.Intn(len(alphabet))]
			b[n-1-i] = alphabet[r.Intn(len(alphabet))]
		}
		return b
	}
	for i := range b {
		b[i] = alphabet[r.Intn(len(alphabet))]
	}
	return b
}

const topicAlpha = "abcxyz/01$ "
const filterAlpha = "abc/+#$"

func allBytes() string {
	b := make([]byte, 256)
	for i := range b {
		b[i] = byte(i)
	}
	return string(b)
}

var anyAlpha = allBytes()

func (g *cgen) anyBytes(n int) []byte {
	if g.r.Intn(3) == 0 {
		return g.bytesOf(n, anyAlpha)
	}
	return g.bytesOf(n, "abc\x00\xff/+#")
}

func (g *cgen) pktID() int {
	switch g.r.Intn(10) {
	case 0:
		return 1
	case 1:
		return 65535
	case 2:
		return 256
	}
	return 1 + g.r.Intn(65535)
}

// record draws a well-formed packet of type t
func (g *cgen) record(t int) *rec {
	r := g.r
	rc := &rec{t: t}
	switch t {
	case 1:
		rc.ver = 3 + r.Intn(2)
		rc.clean = r.Intn(2) == 0
		rc.ka = pick(r, []int{0, 1, 60, 255, 256, 65535, r.Intn(65536)})
		n := r.Intn(33)
		if r.Intn(4) == 0 {
			n = pick(r, []int{0, 1, 23, 32})
		}
		if n == 0 {
			rc.clean = true
		}
		rc.cid = g.bytesOf(n, "abcXYZ019 ~!-_")
		if r.Intn(2) == 0 {
			rc.will = true
			rc.wq = r.Intn(3)
			rc.wr = r.Intn(2) == 0
			rc.wt = g.bytesOf(g.strLen(1), topicAlpha)
			rc.wm = g.anyBytes(g.strLen(0))
		}
		if r.Intn(2) == 0 {
			rc.uf = true
			rc.un = g.bytesOf(g.strLen(0), "abcuser@.")
			if r.Intn(2) == 0 {
				rc.pf = true
				rc.pw = g.anyBytes(g.strLen(0))
			}
		}
	case 2:
		rc.sp = r.Intn(2) == 0
		rc.rc = r.Intn(6)
	case 3:
		rc.dup = r.Intn(4) == 0
		rc.ret = r.Intn(3) == 0
		rc.qos = r.Intn(3)
		if rc.qos == 0 {
			rc.dup = false
		}
		rc.topic = g.bytesOf(g.strLen(1), "abcxyz/01$ \xc3")
		if rc.qos > 0 {
			rc.id = g.pktID()
		}
		pl := g.strLen(0)
		if r.Intn(12) == 0 {
			pl = pick(r, []int{0, 1, 127 - 2 - len(rc.topic), 128, 16383, 16384, 70000})
			if pl < 0 {
				pl = 0
			}
		}
		if g.tier == "thorough" && r.Intn(400) == 0 {
			pl = pick(r, []int{2097151, 2097152, 2097140, 2100000}) - 2 - len(rc.topic)
		}
		rc.payload = g.anyBytes(pl)
	case 4, 5, 6, 7, 11:
		rc.id = g.pktID()
	case 8, 10:
		rc.id = g.pktID()
		nt := 1 + r.Intn(4)
		if r.Intn(10) == 0 {
			nt = 1 + r.Intn(40)
		}
		if r.Intn(200) == 0 {
			nt = 300 + r.Intn(800)
		}
		for i := 0; i < nt; i++ {
			l := g.strLen(1)
			if nt > 8 && l > 300 {
				l = 1 + r.Intn(20)
			}
			rc.topics = append(rc.topics, g.bytesOf(l, filterAlpha))
			rc.qoss = append(rc.qoss, r.Intn(3))
		}
	case 9:
		rc.id = g.pktID()
		nc := 1 + r.Intn(5)
		switch k := r.Intn(1000); {
		case k < 60:
			nc = pick(r, []int{124, 125, 126, 127, 1 + r.Intn(300)})
		case k < 64:
			nc = 1 + r.Intn(3000)
		case k < 65 || (g.tier == "thorough" && k < 68):
			nc = pick(r, []int{16381, 16382})
		}
		for i := 0; i < nc; i++ {
			rc.codes = append(rc.codes, pick(r, []byte{0, 1, 2, 0x80}))
		}
	}
	return rc
}

func (g *cgen) anyType() int {
	// weight the types with structure
	return pick(g.r, []int{1, 1, 1, 2, 3, 3, 3, 3, 4, 5, 6, 7, 8, 8, 8, 9, 9, 10, 10, 10, 11, 12, 13, 14})
}

// ---- (a) well-formed stream ---------------------------------------------------

func genCodecWF(seed int64, n int, tier string, w *bufio.Writer) { genCodecWFx(seed, n, tier, w, true) }

func genCodecWFx(seed int64, n int, tier string, w *bufio.Writer, builds bool) {
	g := &cgen{r: rand.New(rand.NewSource(seed)), w: w, tier: tier}
	g.emit("reset")
	// every varint boundary of the remaining length, also the ones whose packets are too large for an op line
	for _, rl := range []int{126, 127, 128, 129, 16382, 16383, 16384, 16385, 2097150, 2097151, 2097152, 2097153} {
		g.emit("biglen %d", rl)
	}
	for g.n < n {
		t := g.anyType()
		rc := g.record(t)
		b := rc.encode()
		switch g.r.Intn(6) {
		case 0: // followed by the start of another packet / garbage
			b = append(b, g.anyBytes(1+g.r.Intn(6))...)
		case 1: // decoded as a different type
			if g.r.Intn(3) == 0 {
				t = 1 + g.r.Intn(14)
			}
		}
		g.emit("dec %d %s", t, hexxOf(b))
		if builds && g.r.Intn(3) == 0 {
			g.emit("%s", buildOps(g, rc, false))
		}
	}
}

// ---- (b) malformed stream -----------------------------------------------------

func longVarint(r *rand.Rand) []byte {
	n := 5 + r.Intn(8) // 5..12 bytes
	b := make([]byte, n)
	for i := 0; i < n-1; i++ {
		b[i] = 0x80 | byte(r.Intn(128))
		if r.Intn(3) == 0 {
			b[i] = 0x80
		}
		if r.Intn(4) == 0 {
			b[i] = 0xff
		}
	}
	b[n-1] = byte(r.Intn(128))
	if r.Intn(3) == 0 {
		b[n-1] = byte(r.Intn(3))
	}
	if r.Intn(5) == 0 { // unterminated
		b[n-1] |= 0x80
	}
	return b
}

func genCodecMal(seed int64, n int, tier string, w *bufio.Writer) {
	g := &cgen{r: rand.New(rand.NewSource(seed)), w: w, tier: tier}
	r := g.r
	g.emit("reset")
	for g.n < n {
		t := g.anyType()
		rc := g.record(t)
		// keep the malformed stream's packets small enough for "every offset"
		small := func(b []byte) []byte {
			if len(b) > 24 {
				return b[:8+r.Intn(16)]
			}
			return b
		}
		switch t {
		case 1:
			rc.wt, rc.wm, rc.un, rc.pw = small(rc.wt), small(rc.wm), small(rc.un), small(rc.pw)
		case 3:
			rc.topic, rc.payload = small(rc.topic), small(rc.payload)
		case 8, 10:
			if len(rc.topics) > 5 {
				rc.topics, rc.qoss = rc.topics[:5], rc.qoss[:5]
			}
			for i := range rc.topics {
				rc.topics[i] = small(rc.topics[i])
			}
		case 9:
			rc.codes = small(rc.codes)
		}
		flags, body, lps := rc.body()
		b := rc.encode()
		hl := len(b) - len(body)
		switch k := r.Intn(12); k {
		case 0: // truncation at every offset
			for cut := 0; cut < len(b) && g.n < n; cut++ {
				g.emit("dec %d %s", t, hexxOf(b[:cut]))
			}
		case 1: // remaining length larger / smaller than the body, with and without bytes behind it
			for _, d := range []int{-3, -2, -1, 1, 2, 3, 200} {
				nl := len(body) + d
				if nl < 0 {
					continue
				}
				c := append([]byte{b[0]}, refVarint(nl)...)
				c = append(c, body...)
				g.emit("dec %d %s", t, hexxOf(c))
				g.emit("dec %d %s", t, hexxOf(append(c, g.anyBytes(4)...)))
			}
		case 2: // corrupt each two-byte length prefix
			for _, off := range lps {
				old := int(b[hl+off])<<8 | int(b[hl+off+1])
				for _, nv := range []int{0, old + 1, old + 2, old + 3, old - 1, old - 2, 0xffff, 0x100, len(body), len(body) - off, len(body) - off - 2, len(body) - off - 1, len(body) - off - 3} {
					c := append([]byte{}, b...)
					if nv < 0 {
						nv = 0
					}
					c[hl+off], c[hl+off+1] = byte(nv>>8), byte(nv)
					g.emit("dec %d %s", t, hexxOf(c))
					if r.Intn(3) == 0 {
						g.emit("dec %d %s", t, hexxOf(append(c, g.anyBytes(3)...)))
					}
				}
			}
			if len(lps) == 0 {
				g.emit("dec %d %s", t, hexxOf(b))
			}
		case 3: // all sixteen flag nibbles
			for f := 0; f < 16; f++ {
				c := append([]byte{}, b...)
				c[0] = byte(t<<4) | byte(f)
				g.emit("dec %d %s", t, hexxOf(c))
			}
		case 4: // long, non-minimal and overflowing varints
			for i := 0; i < 4; i++ {
				c := append([]byte{b[0]}, longVarint(r)...)
				if r.Intn(2) == 0 {
					c = append(c, body...)
				}
				g.emit("dec %d %s", t, hexxOf(c))
			}
			// non-minimal encodings of the right length
			v := refVarint(len(body))
			for pad := 1; pad <= 4; pad++ {
				c := []byte{b[0]}
				vv := append([]byte{}, v...)
				for j := 0; j < pad; j++ {
					vv[len(vv)-1] |= 0x80
					vv = append(vv, 0)
				}
				c = append(append(c, vv...), body...)
				g.emit("dec %d %s", t, hexxOf(c))
			}
			// large announced lengths without the bytes
			for _, v := range [][]byte{{0xff, 0xff, 0xff, 0x7f}, {0xff, 0xff, 0xff, 0xff, 0x07}, {0xff, 0xff, 0xff, 0xff, 0x0f}, {0x80, 0x80, 0x80, 0x80, 0x08},
				{0xff, 0xff, 0xff, 0xff, 0xff, 0xff, 0xff, 0xff, 0xff, 0x01}, {0x80, 0x80, 0x80, 0x80, 0x80, 0x80, 0x80, 0x80, 0x80, 0x80, 0x01}} {
				g.emit("dec %d %s", t, hexxOf(append(append([]byte{b[0]}, v...), small(body)...)))
			}
		case 5: // single bit flips
			for i := 0; i < 12 && len(b) > 0; i++ {
				c := append([]byte{}, b...)
				p := r.Intn(len(c))
				if r.Intn(2) == 0 && len(c) > 12 {
					p = r.Intn(12)
				}
				c[p] ^= 1 << uint(r.Intn(8))
				g.emit("dec %d %s", t, hexxOf(c))
			}
		case 6: // random bytes
			for i := 0; i < 8; i++ {
				c := make([]byte, r.Intn(12))
				r.Read(c)
				if len(c) > 0 && r.Intn(3) != 0 {
					c[0] = byte(t<<4) | flags
				}
				if len(c) > 1 && r.Intn(2) == 0 {
					c[1] = byte(len(c) - 2)
				}
				g.emit("dec %d %s", t, hexxOf(c))
			}
		case 7: // splice: body bytes overwritten / inserted / removed
			for i := 0; i < 6 && len(body) > 0; i++ {
				c := append([]byte{}, b...)
				p := hl + r.Intn(len(body))
				switch r.Intn(3) {
				case 0:
					c[p] = byte(r.Intn(256))
				case 1:
					c = append(c[:p], c[p+1:]...)
				default:
					c = append(c[:p], append([]byte{byte(r.Intn(256))}, c[p:]...)...)
				}
				if r.Intn(2) == 0 { // keep the remaining length consistent with the new size
					c = append(append([]byte{c[0]}, refVarint(len(c)-hl)...), c[hl:]...)
				}
				g.emit("dec %d %s", t, hexxOf(c))
			}
		case 8: // protocol-level violations with intact framing
			g.protocolViolations(rc)
		case 9: // wrong type for these bytes
			for i := 0; i < 3; i++ {
				g.emit("dec %d %s", 1+r.Intn(14), hexxOf(b))
			}
		case 10: // tiny inputs
			for _, c := range [][]byte{{}, {byte(t << 4)}, {byte(t<<4) | flags}, {byte(t<<4) | flags, 0}, {byte(t<<4) | flags, 0x80}, {byte(t<<4) | flags, 1},
				{byte(t<<4) | flags, 2, 0}, {byte(t<<4) | flags, 0x80, 0x80}, {byte(t<<4) | flags, 0xff, 0xff, 0xff}, {byte(t<<4) | flags, 3, 0, 1}} {
				g.emit("dec %d %s", t, hexxOf(c))
			}
		default: // the intact packet, for contrast
			g.emit("dec %d %s", t, hexxOf(b))
		}
	}
}

// protocolViolations: packets with correct framing whose content breaks a rule
// of the specification (the decoder may or may not reject them).
func (g *cgen) protocolViolations(rc *rec) {
	r := g.r
	mk := func(t int, flags byte, body []byte) {
		c := append([]byte{byte(t<<4) | flags}, refVarint(len(body))...)
		g.emit("dec %d %s", t, hexxOf(append(c, body...)))
	}
	switch rc.t {
	case 1:
		_, body, _ := rc.body()
		pl := 2 + int(body[1]) // protocol name
		for i := 0; i < 6; i++ {
			c := append([]byte{}, body...)
			switch i {
			case 0:
				c[pl] = byte(r.Intn(256)) // level
			case 1:
				c[pl+1] |= 1 // reserved flag
			case 2:
				c[pl+1] = byte(r.Intn(256))
			case 3:
				c[pl+1] |= 0x18 // will qos 3
			case 4:
				c[pl+1] &^= 0x04 // will flag off, qos/retain kept
			case 5:
				c[2] ^= 0x20 // protocol name case
			}
			mk(1, 0, c)
		}
		// client identifiers outside the policy
		for _, cid := range [][]byte{g.bytesOf(33, "ab"), {0x7f}, {0x1f}, {0xc3, 0xa4}, {}} {
			x := *rc
			x.cid = cid
			x.clean = r.Intn(2) == 0
			g.emit("dec 1 %s", hexxOf(x.encode()))
		}
		// flags promising fields that are not there, and fields without flags
		for _, cf := range []byte{0x82, 0xc2, 0x42, 0x06, 0x26, 0x02} {
			x := &rec{t: 1, ver: 4, clean: true, cid: []byte("c")}
			_, b, _ := x.body()
			b[7] = cf
			mk(1, 0, b)
			mk(1, 0, append(b, 0, 0))
			mk(1, 0, append(b, 0, 1, 'u'))
			mk(1, 0, append(b, 0, 1, 'u', 0, 0))
			mk(1, 0, append(b, 0, 1, 't', 0, 1, 'm', 0, 1, 'u', 0, 1, 'p'))
			mk(1, 0, append(b, 9))
		}
	case 2:
		for i := 0; i < 4; i++ {
			mk(2, 0, []byte{byte(r.Intn(4)), byte(r.Intn(9))})
		}
		mk(2, 0, []byte{0})
		mk(2, 0, []byte{0, 0, 0})
		mk(2, 0, nil)
	case 3:
		for _, tp := range []string{"", "a/+", "#", "a/#", "+", "a+"} {
			x := *rc
			x.topic = []byte(tp)
			g.emit("dec 3 %s", hexxOf(x.encode()))
		}
		x := *rc
		x.qos = 3
		x.id = 7
		g.emit("dec 3 %s", hexxOf(x.encode()))
		x.qos = 1 + r.Intn(2)
		x.id = 0
		g.emit("dec 3 %s", hexxOf(x.encode()))
		x.payload = nil
		g.emit("dec 3 %s", hexxOf(x.encode()))
		// topic length running into / past the packet id and the end
		for _, tl := range []int{len(rc.topic) + 1, len(rc.topic) + 2, len(rc.topic) + 3, len(rc.topic) + len(rc.payload), len(rc.topic) + len(rc.payload) + 2, len(rc.topic) + len(rc.payload) + 3} {
			_, body, _ := rc.body()
			body[0], body[1] = byte(tl>>8), byte(tl)
			mk(3, byte(rc.qos<<1), body)
			g.emit("dec 3 %s", hexxOf(append(append([]byte{byte(3<<4 | rc.qos<<1)}, refVarint(len(body))...), append(body, 1, 2, 3, 4)...)))
		}
	case 4, 5, 6, 7, 11:
		fl := byte(0)
		if rc.t == 6 {
			fl = 2
		}
		for _, body := range [][]byte{nil, {0}, {0, 0}, {0, 1, 2}, {0, 1, 2, 3}} {
			mk(rc.t, fl, body)
		}
	case 8:
		for _, q := range []int{3, 4, 0x80, 255} {
			x := *rc
			x.qoss = append([]int{}, rc.qoss...)
			x.qoss[r.Intn(len(x.qoss))] = q
			g.emit("dec 8 %s", hexxOf(x.encode()))
		}
		mk(8, 2, refU16(rc.id))
		mk(8, 2, []byte{0})
		mk(8, 2, nil)
		mk(8, 2, append(refU16(rc.id), 0, 1, 'a'))
		mk(8, 2, append(refU16(rc.id), 0, 1, 'a', 0, 0))
		mk(8, 2, append(refU16(rc.id), 0, 1, 'a', 0, 0, 1))
		mk(8, 2, append(refU16(0), 0, 1, 'a', 0))
		mk(8, 2, append(refU16(rc.id), 0, 0, 1))
	case 9:
		for _, c := range []byte{3, 4, 0x7f, 0x81, 0xff} {
			x := *rc
			x.codes = append([]byte{}, rc.codes...)
			x.codes[r.Intn(len(x.codes))] = c
			g.emit("dec 9 %s", hexxOf(x.encode()))
		}
		mk(9, 0, refU16(rc.id))
		mk(9, 0, []byte{0})
		mk(9, 0, nil)
	case 10:
		mk(10, 2, refU16(rc.id))
		mk(10, 2, []byte{0})
		mk(10, 2, nil)
		mk(10, 2, append(refU16(rc.id), 0, 1, 'a', 0))
		mk(10, 2, append(refU16(rc.id), 0, 1, 'a', 0, 0))
		mk(10, 2, append(refU16(rc.id), 0, 0))
		// many short topics (the remaining-length bookkeeping)
		for _, k := range []int{2, 3, 4, 5, 8} {
			x := &rec{t: 10, id: rc.id}
			for i := 0; i < k; i++ {
				x.topics = append(x.topics, []byte{byte('a' + i)})
			}
			g.emit("dec 10 %s", hexxOf(x.encode()))
		}
	case 12, 13, 14:
		mk(rc.t, 0, []byte{9})
		mk(rc.t, 0, []byte{0, 0})
		c := []byte{byte(rc.t << 4), 0x80, 0}
		g.emit("dec %d %s", rc.t, hexxOf(c))
		g.emit("dec %d %s", rc.t, hexxOf([]byte{byte(rc.t << 4), 0, 0xe0, 0}))
	}
}

// ---- (c) exhaustive sweep ------------------------------------------------------

// genCodecSweep enumerates byte strings up to `depth` bytes for one packet type
// (chosen by the seed, so the types run as parallel jobs): all strings of length
// ≤ 2, and for length 3 every string whose first byte carries the type's own
// nibble (all 16 flag nibbles) plus three representatives of a foreign type —
// header.decode rejects a foreign type nibble before it looks at anything else.
func genCodecSweep(seed int64, depth int, tier string, w *bufio.Writer) {
	fmt.Fprintln(w, "codec reset")
	if tier != "thorough" {
		for t := 1; t <= 14; t++ {
			sweepType(t, depth, w)
		}
		return
	}
	sweepType(int((seed-1)%14+14)%14+1, depth, w)
}

func sweepType(t, depth int, w *bufio.Writer) {
	emit := func(b []byte) { fmt.Fprintf(w, "codec dec %d %s\n", t, hexxOf(b)) }
	emit(nil)
	for a := 0; a < 256; a++ {
		emit([]byte{byte(a)})
	}
	firsts := []int{}
	for f := 0; f < 16; f++ {
		firsts = append(firsts, t<<4|f)
	}
	firsts = append(firsts, 0x00, 0xf0, ((t%14)+1)<<4)
	if depth >= 2 {
		for a := 0; a < 256; a++ {
			for b := 0; b < 256; b++ {
				emit([]byte{byte(a), byte(b)})
			}
		}
	}
	if depth >= 3 {
		for _, a := range firsts {
			for b := 0; b < 256; b++ {
				for c := 0; c < 256; c++ {
					emit([]byte{byte(a), byte(b), byte(c)})
				}
			}
		}
	}
}

// ---- API-built messages ---------------------------------------------------------

func b01s(b bool) string {
	if b {
		return "1"
	}
	return "0"
}

// buildOps renders a record as the setter sequence that builds it through the
// API.  With noise, setters are repeated / overwritten / rejected on the way.
func buildOps(g *cgen, rc *rec, noise bool) string {
	r := g.r
	var ops []string
	add := func(format string, a ...interface{}) { ops = append(ops, fmt.Sprintf(format, a...)) }
	switch rc.t {
	case 1:
		add("ver=%d", rc.ver)
		if noise && r.Intn(3) == 0 {
			add("ver=%d", pick(r, []int{0, 5, 2}))
		}
		add("clean=%s", b01s(rc.clean))
		add("ka=%d", rc.ka)
		add("cid=%s", hexxOf(rc.cid))
		if rc.will {
			add("wt=%s", hexxOf(rc.wt))
			add("wm=%s", hexxOf(rc.wm))
			add("wq=%d", rc.wq)
			add("wr=%s", b01s(rc.wr))
			if len(rc.wt) == 0 && len(rc.wm) == 0 {
				add("will=1")
			}
		}
		if rc.uf {
			add("un=%s", hexxOf(rc.un))
			if len(rc.un) == 0 {
				add("uf=1")
			}
		}
		if rc.pf {
			add("pw=%s", hexxOf(rc.pw))
			if len(rc.pw) == 0 {
				add("pf=1")
			}
		}
	case 2:
		add("sp=%s", b01s(rc.sp))
		add("rc=%d", rc.rc)
	case 3:
		if noise && r.Intn(3) == 0 {
			add("topic=%s", hexxOf([]byte(pick(r, []string{"", "a/#", "+"}))))
		}
		add("topic=%s", hexxOf(rc.topic))
		add("payload=%s", hexxOf(rc.payload))
		add("qos=%d", rc.qos)
		if noise && r.Intn(3) == 0 {
			add("qos=%d", 3+r.Intn(5))
		}
		if rc.dup {
			add("dup=1")
		}
		if rc.ret {
			add("ret=1")
		}
		if rc.qos > 0 && !(noise && r.Intn(3) == 0) {
			add("id=%d", rc.id)
		}
	case 4, 5, 6, 7, 11:
		if !(noise && r.Intn(4) == 0) {
			add("id=%d", rc.id)
		}
	case 8:
		if !(noise && r.Intn(3) == 0) {
			add("id=%d", rc.id)
		}
		for i, t := range rc.topics {
			add("add=%s:%d", hexxOf(t), rc.qoss[i])
			if noise && r.Intn(4) == 0 {
				add("add=%s:%d", hexxOf(pick(r, rc.topics[:i+1])), pick(r, []int{0, 1, 2, 3}))
			}
			if noise && r.Intn(6) == 0 {
				add("rm=%s", hexxOf(pick(r, rc.topics[:i+1])))
			}
		}
	case 9:
		add("id=%d", rc.id)
		for _, c := range rc.codes {
			add("code=%d", c)
			if noise && r.Intn(6) == 0 {
				add("code=%d", pick(r, []int{3, 0x81, 255}))
			}
		}
	case 10:
		if !(noise && r.Intn(3) == 0) {
			add("id=%d", rc.id)
		}
		for i, t := range rc.topics {
			add("add=%s", hexxOf(t))
			if noise && r.Intn(4) == 0 {
				add("add=%s", hexxOf(pick(r, rc.topics[:i+1])))
			}
			if noise && r.Intn(6) == 0 {
				add("rm=%s", hexxOf(pick(r, rc.topics[:i+1])))
			}
		}
	}
	pre := ""
	if noise || r.Intn(2) == 0 {
		pre = fmt.Sprintf(" ctr=%d", pick(r, []uint64{0, 1, 65534, 65535, 65536, 131071, 1<<32 - 1, 1<<64 - 2, 1<<64 - 1, uint64(r.Int63())}))
	}
	return strings.TrimRight(fmt.Sprintf("build %d%s %s", rc.t, pre, strings.Join(ops, " ")), " ")
}

// setterNoise: a random setter token for type t (valid and invalid values)
func (g *cgen) setterNoise(t int) string {
	r := g.r
	hb := func(alpha string) string { return hexxOf(g.bytesOf(g.strLen(0), alpha)) }
	switch t {
	case 1:
		switch r.Intn(14) {
		case 0:
			return fmt.Sprintf("ver=%d", r.Intn(6))
		case 1:
			return "clean=" + b01s(r.Intn(2) == 0)
		case 2:
			return "will=" + b01s(r.Intn(2) == 0)
		case 3:
			return fmt.Sprintf("wq=%d", r.Intn(4))
		case 4:
			return "wr=" + b01s(r.Intn(2) == 0)
		case 5:
			return "uf=" + b01s(r.Intn(2) == 0)
		case 6:
			return "pf=" + b01s(r.Intn(2) == 0)
		case 7:
			return fmt.Sprintf("ka=%d", r.Intn(65536))
		case 8:
			return "cid=" + hexxOf(g.bytesOf(r.Intn(36), "abc ~\x7f"))
		case 9:
			return "wt=" + hb(topicAlpha)
		case 10:
			return "wm=" + hb("abc\x00")
		case 11:
			return "un=" + hb("user")
		case 12:
			return "pw=" + hb("pw\x00")
		default:
			return "cid=" + hexxOf(g.bytesOf(r.Intn(8), "abc"))
		}
	case 2:
		if r.Intn(2) == 0 {
			return "sp=" + b01s(r.Intn(2) == 0)
		}
		return fmt.Sprintf("rc=%d", pick(r, []int{0, 1, 2, 3, 4, 5, 6, 255}))
	case 3:
		switch r.Intn(7) {
		case 0:
			return "dup=" + b01s(r.Intn(2) == 0)
		case 1:
			return "ret=" + b01s(r.Intn(2) == 0)
		case 2:
			return fmt.Sprintf("qos=%d", r.Intn(4))
		case 3:
			return "topic=" + hb("ab/+#")
		case 4:
			return "payload=" + hexxOf(g.anyBytes(g.strLen(0)))
		case 5:
			return fmt.Sprintf("id=%d", pick(r, []int{0, 1, 65535, r.Intn(65536)}))
		default:
			return "topic=" + hexxOf(g.bytesOf(g.strLen(1), "abc/"))
		}
	case 8:
		switch r.Intn(4) {
		case 0:
			return fmt.Sprintf("id=%d", pick(r, []int{0, 1, 65535, r.Intn(65536)}))
		case 1:
			return "rm=" + hexxOf(g.bytesOf(1+r.Intn(2), "ab"))
		default:
			return fmt.Sprintf("add=%s:%d", hexxOf(g.bytesOf(1+r.Intn(2), "ab")), pick(r, []int{0, 1, 2, 2, 3}))
		}
	case 9:
		if r.Intn(4) == 0 {
			return fmt.Sprintf("id=%d", pick(r, []int{0, 1, 65535, r.Intn(65536)}))
		}
		return fmt.Sprintf("code=%d", pick(r, []int{0, 1, 2, 128, 3, 129}))
	case 10:
		switch r.Intn(4) {
		case 0:
			return fmt.Sprintf("id=%d", pick(r, []int{0, 1, 65535, r.Intn(65536)}))
		case 1:
			return "rm=" + hexxOf(g.bytesOf(1+r.Intn(2), "ab"))
		default:
			return "add=" + hexxOf(g.bytesOf(1+r.Intn(2), "ab"))
		}
	case 4, 5, 6, 7, 11:
		return fmt.Sprintf("id=%d", pick(r, []int{0, 1, 255, 256, 65535, r.Intn(65536)}))
	}
	return ""
}

func genCodecBuild(seed int64, n int, tier string, w *bufio.Writer) {
	g := &cgen{r: rand.New(rand.NewSource(seed)), w: w, tier: tier}
	r := g.r
	g.emit("reset")
	for g.n < n {
		t := g.anyType()
		rc := g.record(t)
		switch r.Intn(4) {
		case 0: // the record, built cleanly
			g.emit("%s", buildOps(g, rc, false))
		case 1: // the record with noise setters in between
			g.emit("%s", buildOps(g, rc, true))
		case 2: // arbitrary setter sequences on a fresh message
			var toks []string
			for i, k := 0, r.Intn(8); i < k; i++ {
				if s := g.setterNoise(t); s != "" {
					toks = append(toks, s)
				}
			}
			g.emit("%s", strings.TrimRight(fmt.Sprintf("build %d ctr=%d %s", t, pick(r, []uint64{0, 65534, 65535, 65536, uint64(r.Int63())}), strings.Join(toks, " ")), " "))
		default: // decode a well-formed packet, then apply setters, then encode
			small := *rc
			if len(small.payload) > 200 {
				small.payload = small.payload[:r.Intn(200)]
			}
			var toks []string
			for i, k := 0, r.Intn(4); i < k; i++ {
				if s := g.setterNoise(t); s != "" {
					toks = append(toks, s)
				}
			}
			if t == 8 && r.Intn(2) == 0 && len(rc.topics) > 0 {
				toks = append(toks, fmt.Sprintf("add=%s:%d", hexxOf(pick(r, rc.topics)), r.Intn(3)))
			}
			b := small.encode()
			if r.Intn(4) == 0 {
				b = append(b, g.anyBytes(1+r.Intn(4))...)
			}
			g.emit("%s", strings.TrimRight(fmt.Sprintf("build %d from=%s ctr=%d %s", t, hexxOf(b), pick(r, []uint64{0, 65535, uint64(r.Int63())}), strings.Join(toks, " ")), " "))
		}
	}
}

// genCodecIDs: runs of automatically numbered packets across the wrap points of
// the 16-bit identifier space (n = total number of packets encoded)
func genCodecIDs(seed int64, n int, tier string, w *bufio.Writer) {
	r := rand.New(rand.NewSource(seed))
	fmt.Fprintln(w, "codec reset")
	fmt.Fprintf(w, "codec idseq 0 %d\n", 70000)
	done := 70000
	starts := []uint64{65530, 131060, 1<<32 - 10, 1<<63 - 5, 1<<64 - 20, 1<<64 - 65540}
	for _, s := range starts {
		fmt.Fprintf(w, "codec idseq %d %d\n", s, 40)
		done += 40
	}
	for done < n {
		k := 1 + r.Intn(300)
		s := uint64(r.Int63())
		if r.Intn(2) == 0 {
			s = uint64(r.Intn(1<<20))<<16 - uint64(r.Intn(200))
		}
		fmt.Fprintf(w, "codec idseq %d %d\n", s, k)
		done += k
	}
}
