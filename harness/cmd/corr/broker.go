package main

// Core E — the real broker (service.Server) driven in-process over net.Pipe by
// raw clients that use the harness's own wire codec.  After every event a
// PINGREQ/PINGRESP barrier on every live connection bounds the observation
// window (packets of one connection are processed in order, and everything
// written to a connection before our PINGREQ was processed precedes its
// PINGRESP in that connection's outgoing ring).

import (
	"fmt"
	"io"
	"net"
	"sort"
	"strings"
	"sync"
	"sync/atomic"
	"time"

	"github.com/mdzio/go-mqtt/auth"
	"github.com/mdzio/go-mqtt/message"
	"github.com/mdzio/go-mqtt/service"
)

const brokerWait = 15 * time.Second

type verifAuth struct{}

// slowGate: while an `hsrace` event is in progress, Authenticate calls for a user name beginning
// with "slow" report that they have been entered and then block until the event releases them
// (or brokerWait has passed): a connection held in the middle of its handshake.
type slowGate struct {
	entered chan struct{}
	release chan struct{}
}

var (
	slowMu  sync.Mutex
	curGate *slowGate
)

func setGate(g *slowGate) {
	slowMu.Lock()
	curGate = g
	slowMu.Unlock()
}

func (verifAuth) Authenticate(id string, cred interface{}) error {
	if strings.HasPrefix(id, "slow") {
		slowMu.Lock()
		g := curGate
		slowMu.Unlock()
		if g != nil {
			select {
			case g.entered <- struct{}{}:
			default:
			}
			select {
			case <-g.release:
			case <-time.After(brokerWait):
			}
		}
		return nil
	}
	if id == "deny" {
		return auth.ErrAuthFailure
	}
	return nil
}

var (
	stoppedMu    sync.Mutex
	stoppedChans = map[io.Closer]chan struct{}{}
	providerSeq  int64
	brokerOnce   sync.Once
)

func brokerInit() {
	brokerOnce.Do(func() {
		auth.Register("verifAuth", verifAuth{})
		service.VerifOnStopped = func(c io.Closer) {
			stoppedMu.Lock()
			ch, ok := stoppedChans[c]
			if ok {
				delete(stoppedChans, c)
			}
			stoppedMu.Unlock()
			if ok {
				close(ch)
			}
		}
	})
}

// failWriteConn is the broker's end of a connection whose peer can no longer be written to:
// reads deliver what the peer sent, every write fails.
type failWriteConn struct {
	net.Conn
}

func (f *failWriteConn) Write(p []byte) (int, error) {
	return 0, io.ErrClosedPipe
}

// halfConn is the broker's end of a connection whose peer can shut down its sending direction only
// (TCP FIN, `CloseWrite`): after shut() every Read - a pending one included - returns io.EOF, while
// writes go on as before (they block for as long as the peer does not read).  net.Pipe has no
// half-close of its own.
type halfConn struct {
	net.Conn
	shutCh chan struct{}
	once   sync.Once
	// finalNext: the peer closes right behind the bytes it writes next; the Read that takes them hands
	// them over TOGETHER with the end of the stream (n > 0, io.EOF), as io.Reader allows and
	// crypto/tls does for a record followed by close_notify.  pending: bytes read ahead while
	// looking for that end.
	finalNext int32
	pending   []byte
}

func newHalfConn(c net.Conn) *halfConn {
	h := &halfConn{Conn: c, shutCh: make(chan struct{})}
	go func() {
		<-h.shutCh
		// wakes a pending Read (it fails with a timeout, which Read below turns into io.EOF)
		h.Conn.SetReadDeadline(time.Unix(1, 0))
	}()
	return h
}

func (h *halfConn) shut() { h.once.Do(func() { close(h.shutCh) }) }

func (h *halfConn) isShut() bool {
	select {
	case <-h.shutCh:
		return true
	default:
		return false
	}
}

func (h *halfConn) Read(p []byte) (int, error) {
	if h.isShut() {
		return 0, io.EOF
	}
	if len(h.pending) > 0 && len(p) > 0 {
		n := copy(p, h.pending)
		h.pending = h.pending[n:]
		if len(h.pending) > 0 || atomic.LoadInt32(&h.finalNext) == 0 {
			return n, nil
		}
		return h.withEnd(p, n)
	}
	n, err := h.Conn.Read(p)
	if err != nil && n == 0 && h.isShut() {
		return 0, io.EOF
	}
	if n > 0 && err == nil && atomic.LoadInt32(&h.finalNext) == 1 {
		return h.withEnd(p, n)
	}
	return n, err
}

// withEnd: p[:n] has been read; if the peer's close follows (within two seconds), the caller gets
// (n, io.EOF); a byte read ahead instead is kept for the next Read
func (h *halfConn) withEnd(p []byte, n int) (int, error) {
	h.Conn.SetReadDeadline(time.Now().Add(2 * time.Second))
	var one [1]byte
	m, err := h.Conn.Read(one[:])
	if m > 0 {
		h.pending = append(h.pending, one[:m]...)
		return n, nil
	}
	if err == io.EOF {
		return n, io.EOF
	}
	return n, nil
}

func (h *halfConn) SetReadDeadline(t time.Time) error {
	if h.isShut() {
		return nil
	}
	return h.Conn.SetReadDeadline(t)
}

func (h *halfConn) SetDeadline(t time.Time) error {
	if h.isShut() {
		return h.Conn.SetWriteDeadline(t)
	}
	return h.Conn.SetDeadline(t)
}

// halfCloseable: connections made by rawConnectWith get a halfConn as the broker's end
var halfCloseable bool

type rawClient struct {
	id         int
	served     chan struct{} // closed when handleConnection has returned (the connection is registered, or refused)
	half       *halfConn // the broker's end, if it can be half-closed (life scenarios with cause halfclose)
	conn       net.Conn
	stopped    chan struct{}
	mu         sync.Mutex
	cond       *sync.Cond
	items      []string
	pongs      int // PINGRESPs seen in total
	pings      int // PINGREQs written in total (event packets and barriers)
	eventPings int // PINGREQ events since the last collect
	eof        bool
	bad        string
	accepted   bool
	dead       bool   // reported CLOSED already
	paused     bool   // the reader goroutine stops draining the connection (a client that has stopped reading)
	pend       []byte // bytes of an incomplete packet written so far (`raw` events): the client is mid-packet
}

// mid: an incomplete packet is pending on the connection, so no PINGREQ barrier can be put on it;
// what it receives meanwhile is reported when it is at a packet boundary again.
func (c *rawClient) mid() bool { return len(c.pend) > 0 }

// tornDown: the broker's stop() of this connection has finished
func (c *rawClient) tornDown() bool {
	if c.stopped == nil {
		return false
	}
	select {
	case <-c.stopped:
		return true
	default:
		return false
	}
}

func newRawClient(id int, conn net.Conn) *rawClient {
	c := &rawClient{id: id, conn: conn}
	c.cond = sync.NewCond(&c.mu)
	go c.reader()
	return c
}

func (c *rawClient) reader() {
	var buf []byte
	tmp := make([]byte, 65536)
	for {
		c.mu.Lock()
		for c.paused {
			c.cond.Wait()
		}
		c.mu.Unlock()
		n, err := c.conn.Read(tmp)
		c.mu.Lock()
		if n > 0 {
			buf = append(buf, tmp[:n]...)
			for {
				text, k, perr := wParse(buf)
				if perr == errNeedMore {
					break
				}
				if perr != nil {
					c.bad = perr.Error()
					c.items = append(c.items, "MALFORMED")
					buf = nil
					break
				}
				if text == "PINGRESP" {
					c.pongs++
				}
				c.items = append(c.items, text)
				buf = buf[k:]
			}
		}
		if err != nil {
			if len(buf) > 0 && c.bad == "" {
				c.items = append(c.items, "TRUNCATED")
			}
			c.eof = true
			c.cond.Broadcast()
			c.mu.Unlock()
			return
		}
		c.cond.Broadcast()
		c.mu.Unlock()
	}
}

func (c *rawClient) setPaused(p bool) {
	c.mu.Lock()
	c.paused = p
	c.cond.Broadcast()
	c.mu.Unlock()
}

// waitUntil waits for pred (evaluated under the lock) or timeout.
func (c *rawClient) waitUntil(pred func() bool, d time.Duration) bool {
	deadline := time.Now().Add(d)
	t := time.AfterFunc(d, func() {
		c.mu.Lock()
		c.cond.Broadcast()
		c.mu.Unlock()
	})
	defer t.Stop()
	c.mu.Lock()
	defer c.mu.Unlock()
	for !pred() {
		if time.Now().After(deadline) {
			return false
		}
		c.cond.Wait()
	}
	return true
}

func (c *rawClient) write(b []byte) error {
	c.conn.SetWriteDeadline(time.Now().Add(brokerWait))
	_, err := c.conn.Write(b)
	return err
}

// take removes and returns the items received so far.
func (c *rawClient) take() []string {
	c.mu.Lock()
	defer c.mu.Unlock()
	it := c.items
	c.items = nil
	return it
}

type brokerCore struct {
	rawConn     int  // connection of the current rawfirst/raw/close event (-1: none)
	keepConnack bool // rawfirst: the CONNACK answering the first packet is kept in front of CLOSED
	ring        int  // size of a connection's ring buffers
	pipelined   []byte
	srvClosed   bool // `srvclose` has run: the server is gone, every event until `reset` is void
	failWrite   bool // `failfirst`: the next first packet arrives on a connection that refuses writes
	svr         *service.Server
	clients     map[int]*rawClient
	cbs         map[int]*service.OnPublishFunc
	cbmu        sync.Mutex
	cblog       map[int][]string
	repub       map[int][]byte // republishing callbacks (`srvsubrepub`): callback -> the topic it republishes to
}

func init() {
	cores["broker"] = func() core { brokerInit(); b := &brokerCore{}; b.reset(); return b }
}

func (b *brokerCore) reset() {
	for _, c := range b.clients {
		c.conn.Close()
	}
	for _, c := range b.clients {
		if c.accepted && c.stopped != nil {
			select {
			case <-c.stopped:
			case <-time.After(brokerWait):
			}
		}
	}
	n := atomic.AddInt64(&providerSeq, 1)
	name := fmt.Sprintf("verif%d", n)
	registerProviders(name)
	b.svr = &service.Server{ConnectTimeout: 1, SessionsProvider: name, TopicsProvider: name, Authenticator: "verifAuth"}
	b.clients = map[int]*rawClient{}
	b.cbs = map[int]*service.OnPublishFunc{}
	b.cblog = map[int][]string{}
	b.repub = map[int][]byte{}
	message.VerifResetPacketID(0)
	if b.ring == 0 {
		vb, err := service.VerifNewBuffer(0) // the default size, which Server.BufferSize = 0 selects
		if err != nil {
			panic(err)
		}
		b.ring = int(vb.VerifSize())
	}
}

func parseOptBytes(s string) *[]byte {
	if s == "~" {
		return nil
	}
	b := unhex(s)
	return &b
}

func parseWPub(ws []string) wPub {
	return wPub{dup: ws[0] == "1", qos: atoi(ws[1]), retain: ws[2] == "1", topic: unhex(ws[3]), id: atoi(ws[4]), payload: unhex(ws[5])}
}

func (b *brokerCore) liveIDs() []int {
	var ids []int
	for id, c := range b.clients {
		if c.accepted && !c.dead {
			ids = append(ids, id)
		}
	}
	sort.Ints(ids)
	return ids
}

// barrier sends a PINGREQ on c and waits for its PINGRESP (or EOF).  Returns
// false on timeout.  If no answer arrives within 1.5 s the PINGREQ is repeated once
// and the connection's output gets a STALLED item: before the repair of defect D4
// (service/buffer.go ReadWait tested a cursor loaded before it took the lock) the
// ring's consumer could miss the wake-up for the last packet written and a further
// packet was needed to wake it — with D4 repaired no repeat occurs.
func (b *brokerCore) barrier(c *rawClient) bool {
	ping := func() (int, error) {
		c.mu.Lock()
		c.pings++
		want := c.pings
		c.mu.Unlock()
		return want, c.write([]byte{0xc0, 0x00})
	}
	want, err := ping()
	if err != nil {
		// closed (or stuck): wait for EOF
		return c.waitUntil(func() bool { return c.eof }, brokerWait)
	}
	if c.waitUntil(func() bool { return c.pongs >= want || c.eof }, 1500*time.Millisecond) {
		return true
	}
	// no answer yet.  A slow or overloaded machine answers late but WITHOUT further traffic: wait on,
	// silently.  A packet that sits in the incoming ring unprocessed until more traffic arrives is a lost
	// wake-up (C15): only that is made visible in this connection's output, and the PINGREQ is repeated.
	if c.waitUntil(func() bool { return c.pongs >= want || c.eof }, stallGrace) {
		atomic.AddInt64(&barrierLate, 1)
		return true
	}
	atomic.AddInt64(&barrierRepeats, 1)
	c.mu.Lock()
	c.items = append(c.items, "STALLED")
	c.mu.Unlock()
	want, err = ping()
	if err != nil {
		return c.waitUntil(func() bool { return c.eof }, brokerWait)
	}
	return c.waitUntil(func() bool { return c.pongs >= want || c.eof }, brokerWait)
}

var barrierRepeats, barrierLate int64

// how long a barrier PINGREQ may stay unanswered, with nothing else sent, before it counts as stalled
const stallGrace = 10 * time.Second

// dropBarrierPongs keeps only the PINGRESPs that answer PINGREQ *events*.
func dropBarrierPongs(items []string, c *rawClient) []string {
	c.mu.Lock()
	keep := c.eventPings
	c.eventPings = 0
	c.mu.Unlock()
	var out []string
	for _, it := range items {
		if it == "PINGRESP" {
			if keep > 0 {
				keep--
				out = append(out, it)
			}
			continue
		}
		out = append(out, it)
	}
	return out
}

// dropLastPong removes the barrier's own PINGRESP from an item list.
func dropLastPong(items []string) []string {
	for i := len(items) - 1; i >= 0; i-- {
		if items[i] == "PINGRESP" {
			return append(items[:i:i], items[i+1:]...)
		}
	}
	return items
}

func sortRuns(items []string) []string {
	out := make([]string, 0, len(items))
	var run []string
	flush := func() {
		sort.Strings(run)
		out = append(out, run...)
		run = nil
	}
	for _, it := range items {
		if strings.HasPrefix(it, "PUB ") {
			run = append(run, it)
		} else {
			flush()
			out = append(out, it)
		}
	}
	flush()
	return out
}

// collect runs the barriers (first on `first`, if >= 0) and assembles the
// canonical output line of the event.
func (b *brokerCore) collect(firstID int, apierr bool, extra map[int][]string) string {
	groups := map[int][]string{}
	for k, v := range extra {
		groups[k] = v
	}
	b.collectInto(groups, firstID)
	return b.render(groups, apierr)
}

// collectInto runs the barriers (first on `firstID`, if >= 0) and appends what every connection
// received to its group.  Connections that are mid-packet are skipped (no barrier possible).
func (b *brokerCore) collectInto(groups map[int][]string, firstID int) {
	order := b.liveIDs()
	if firstID >= 0 {
		var o2 []int
		for _, id := range order {
			if id == firstID {
				o2 = append([]int{id}, o2...)
			} else {
				o2 = append(o2, id)
			}
		}
		order = o2
	}
	for _, id := range order {
		c := b.clients[id]
		if c.mid() {
			// a mid-packet connection is looked at again when it is at a packet boundary - unless the
			// broker has torn it down meanwhile (a CONNECT with its client identifier, MQTT-3.1.4-2)
			if !c.tornDown() {
				continue
			}
			c.pend = nil
			c.waitUntil(func() bool { return c.eof }, brokerWait)
		}
		ok := b.barrier(c)
		items := c.take()
		c.mu.Lock()
		eof := c.eof
		c.mu.Unlock()
		if !eof {
			items = dropBarrierPongs(items, c)
		}
		if !ok {
			items = append(items, "TIMEOUT")
		}
		if eof {
			if c.stopped != nil {
				select {
				case <-c.stopped:
				case <-time.After(brokerWait):
					items = append(items, "STOP-TIMEOUT")
				}
			}
			items = append(items, "CLOSED")
			c.dead = true
		}
		if len(items) > 0 {
			groups[id] = append(groups[id], items...)
		}
	}
	if firstID >= 0 {
		// a connection that died in this event has to be followed by a second
		// round on the others (its teardown may have published a will)
		if c, ok := b.clients[firstID]; ok && c.dead {
			for _, id := range b.liveIDs() {
				c2 := b.clients[id]
				if c2.mid() {
					continue
				}
				ok := b.barrier(c2)
				items := dropBarrierPongs(c2.take(), c2)
				if !ok {
					items = append(items, "TIMEOUT")
				}
				groups[id] = append(groups[id], items...)
				if len(groups[id]) == 0 {
					delete(groups, id)
				}
			}
		}
	}
}

// ownFilter: on the line on which the event's own connection is closed, what else it was sent
// on that line is not observed (the broker closes the socket before its sender goroutine has
// flushed), except the CONNACK answering the first packet (written to the socket directly).
func ownFilter(items []string, keepConnack bool) []string {
	closed := false
	for _, it := range items {
		if it == "CLOSED" {
			closed = true
		}
	}
	if !closed {
		return items
	}
	var out []string
	if keepConnack && len(items) > 0 && strings.HasPrefix(items[0], "CONNACK") {
		out = append(out, items[0])
	}
	return append(out, "CLOSED")
}

func (b *brokerCore) render(groups map[int][]string, apierr bool) string {
	if its, ok := groups[b.rawConn]; ok && b.rawConn >= 0 {
		groups[b.rawConn] = ownFilter(its, b.keepConnack)
	}
	var ids []int
	for id := range groups {
		ids = append(ids, id)
	}
	sort.Ints(ids)
	var parts []string
	for _, id := range ids {
		parts = append(parts, fmt.Sprintf("c%d[%s]", id, strings.Join(sortRuns(groups[id]), ";")))
	}
	b.cbmu.Lock()
	var cbids []int
	for id, l := range b.cblog {
		if len(l) > 0 {
			cbids = append(cbids, id)
		}
	}
	sort.Ints(cbids)
	for _, id := range cbids {
		l := b.cblog[id]
		sort.Strings(l)
		parts = append(parts, fmt.Sprintf("cb%d[%s]", id, strings.Join(l, ";")))
		b.cblog[id] = nil
	}
	b.cbmu.Unlock()
	if apierr {
		parts = append(parts, "apierr")
	}
	if len(parts) == 0 {
		return "-"
	}
	return strings.Join(parts, " ")
}

func (b *brokerCore) cb(id int) *service.OnPublishFunc {
	if p, ok := b.cbs[id]; ok {
		return p
	}
	var f service.OnPublishFunc = func(m *message.PublishMessage) error {
		p := wPub{dup: m.Dup(), qos: int(m.QoS()), retain: m.Retain(), topic: append([]byte{}, m.Topic()...),
			id: 0 /* depends on fan-out order */, payload: append([]byte{}, m.Payload()...)}
		b.cbmu.Lock()
		b.cblog[id] = append(b.cblog[id], p.String())
		target, re := b.repub[id]
		b.cbmu.Unlock()
		if re {
			// a republishing callback (`srvsubrepub`): hands the message on through Server.Publish from
			// inside the callback, i.e. in the middle of the fan-out that called it (a bridge)
			nm := message.NewPublishMessage()
			nm.SetTopic(target)
			nm.SetQoS(0)
			nm.SetPayload(p.payload)
			b.svr.Publish(nm)
		}
		return nil
	}
	b.cbs[id] = &f
	return &f
}

func (b *brokerCore) handle(ws []string) string {
	b.rawConn, b.keepConnack = -1, false
	if b.srvClosed && ws[0] != "reset" {
		return "-"
	}
	switch ws[0] {
	case "reset":
		b.reset()
		b.srvClosed = false
		return "reset"
	case "srvclose":
		// Server.Close: every connection is stopped (not gracefully: wills are published); it has to
		// return, every client sees its connection closed, every teardown finishes
		ids := b.liveIDs()
		// handleConnection registers a connection AFTER it has written the CONNACK: a Close that comes
		// between the two does not see the connection (an observation outside the listed properties,
		// DESIGN 14.4); wait until every handshake has returned
		unknown := false
		for _, id := range ids {
			if c := b.clients[id]; c.served != nil {
				select {
				case <-c.served:
				case <-time.After(brokerWait):
				}
			} else {
				unknown = true
			}
		}
		if unknown {
			time.Sleep(100 * time.Millisecond)
		}
		done := make(chan struct{})
		go func() {
			defer close(done)
			defer func() { recover() }()
			b.svr.Close()
		}()
		groups := map[int][]string{}
		closeOK := true
		select {
		case <-done:
		case <-time.After(4 * brokerWait):
			closeOK = false
		}
		for _, id := range ids {
			c := b.clients[id]
			c.pend = nil
			ok := c.waitUntil(func() bool { return c.eof }, brokerWait)
			c.take() // what else it was sent on the line on which it is closed is not observed
			var items []string
			if !ok {
				items = append(items, "TIMEOUT")
				c.conn.Close()
			} else if c.stopped != nil {
				select {
				case <-c.stopped:
				case <-time.After(brokerWait):
					items = append(items, "STOP-TIMEOUT")
				}
			}
			groups[id] = append(items, "CLOSED")
			c.dead = true
		}
		b.srvClosed = true
		res := b.render(groups, false)
		if !closeOK {
			res += " SRVCLOSE-TIMEOUT"
		}
		return res
	case "rawfirst":
		return b.rawFirst(atoi(ws[1]), unhex(ws[2]), ws[3] == "1")
	case "race":
		return b.race(ws)
	case "raw":
		c, ok := b.clients[atoi(ws[1])]
		if !ok || c.dead || !c.accepted {
			return "-"
		}
		b.rawConn = c.id
		groups := map[int][]string{}
		b.rawWrite(c, unhex(ws[2]), groups)
		return b.render(groups, false)
	case "first":
		id := atoi(ws[1])
		var bytes []byte
		switch ws[2] {
		case "connect":
			bytes = connectFieldsBytes(ws[3:15])
		case "other":
			switch atoi(ws[3]) {
			case 3:
				bytes = wPub{qos: 0, topic: []byte("a"), payload: []byte("x")}.encode()
			case 8:
				bytes = wSubscribe(1, [][]byte{[]byte("a")}, []int{0})
			case 12:
				bytes = []byte{0xc0, 0x00}
			case 14:
				bytes = []byte{0xe0, 0x00}
			default:
				bytes = wAck(4, 1)
			}
		case "garbage":
			bytes = []byte{0x10, 0xff, 0xff, 0xff, 0xff, 0xff, 0x01}
		}
		cl, sv0 := net.Pipe()
		var sv net.Conn = sv0
		var half *halfConn
		if b.failWrite {
			// `failfirst`: the broker's end of the connection refuses every write (the peer has gone
			// after sending its first packet): the answer to the first packet cannot be written
			sv = &failWriteConn{Conn: sv0}
		} else {
			half = newHalfConn(sv0)
			sv = half
		}
		c := newRawClient(id, cl)
		c.half = half
		c.stopped = make(chan struct{})
		stoppedMu.Lock()
		stoppedChans[sv] = c.stopped
		stoppedMu.Unlock()
		b.clients[id] = c
		c.served = make(chan struct{})
		go func(served chan struct{}) {
			defer close(served)
			b.svr.VerifServe(sv)
		}(c.served)
		pipelinedDisconnect := false
		if b.pipelined != nil {
			bytes = append(bytes, b.pipelined...)
			pipelinedDisconnect = len(b.pipelined) == 2 && b.pipelined[0] == 0xe0
			if len(b.pipelined) == 2 && b.pipelined[0] == 0xc0 {
				c.mu.Lock()
				c.pings++
				c.eventPings++
				c.mu.Unlock()
			}
		}
		writeFirst(c, bytes)
		c.waitUntil(func() bool { return len(c.items) > 0 || c.eof }, brokerWait)
		if pipelinedDisconnect {
			c.waitUntil(func() bool { return c.eof }, brokerWait)
		}
		c.mu.Lock()
		if len(c.items) > 0 && strings.HasPrefix(c.items[0], "CONNACK") && strings.HasSuffix(c.items[0], " 0") {
			c.accepted = true
		}
		c.mu.Unlock()
		if !c.accepted {
			ok := c.waitUntil(func() bool { return c.eof }, brokerWait)
			items := c.take()
			if !ok {
				items = append(items, "TIMEOUT")
				c.conn.Close()
			}
			items = append(items, "CLOSED")
			c.dead = true
			stoppedMu.Lock()
			delete(stoppedChans, sv)
			stoppedMu.Unlock()
			return b.collect(-1, false, map[int][]string{id: items})
		}
		return b.collect(id, false, nil)
	case "failfirst":
		// a first packet on a connection to which the broker cannot write
		b.failWrite = true
		res := b.handle(append([]string{"first"}, ws[1:]...))
		b.failWrite = false
		return res
	case "firstp":
		// CONNECT and one further packet in a single write, before the CONNACK is read
		semi := -1
		for i, w := range ws {
			if w == ";" {
				semi = i
			}
		}
		if semi < 0 {
			return "bad-op"
		}
		pending := clientPacketBytes(ws[semi+1:])
		b.pipelined = pending
		res := b.handle(append([]string{"first"}, ws[1:semi]...))
		b.pipelined = nil
		return res
	case "pkt":
		id := atoi(ws[1])
		c, ok := b.clients[id]
		if !ok || c.dead {
			return "-"
		}
		if c.mid() {
			// the packet's bytes would become part of the pending packet: that is what `raw` expresses
			return "bad-op"
		}
		var bytes []byte
		switch ws[2] {
		case "publish":
			bytes = parseWPub(ws[3:]).encode()
		case "puback":
			bytes = wAck(4, atoi(ws[3]))
		case "pubrec":
			bytes = wAck(5, atoi(ws[3]))
		case "pubrel":
			bytes = wAck(6, atoi(ws[3]))
		case "pubcomp":
			bytes = wAck(7, atoi(ws[3]))
		case "unsuback":
			bytes = wAck(11, atoi(ws[3]))
		case "suback":
			bytes = wPacket(0x90, append(wID(atoi(ws[3])), 0))
		case "subscribe":
			var ts [][]byte
			var qs []int
			for _, e := range strings.Split(ws[4], ",") {
				f := strings.Split(e, ":")
				ts = append(ts, unhex(f[0]))
				qs = append(qs, atoi(f[1]))
			}
			bytes = wSubscribe(atoi(ws[3]), ts, qs)
		case "unsubscribe":
			var ts [][]byte
			for _, e := range strings.Split(ws[4], ",") {
				ts = append(ts, unhex(e))
			}
			bytes = wUnsubscribe(atoi(ws[3]), ts)
		case "pingreq":
			bytes = []byte{0xc0, 0x00}
			c.mu.Lock()
			c.pings++
			c.eventPings++
			c.mu.Unlock()
		case "pingresp":
			bytes = []byte{0xd0, 0x00}
		case "disconnect":
			bytes = []byte{0xe0, 0x00}
		case "connect":
			bytes = wConnect{protoName: []byte("MQTT"), version: 4, clean: true, clientID: []byte("again"), keepAlive: 30}.encode()
		default:
			return "bad-op"
		}
		c.write(bytes)
		if ws[2] == "disconnect" {
			c.waitUntil(func() bool { return c.eof }, brokerWait)
		}
		return b.collect(id, false, nil)
	case "rawclose":
		// whole packets written in one go and the socket closed straight behind them, with no barrier
		// in between: the broker's receiver sees the end of the stream while its processor is still
		// working through the packets - every one of them must take effect all the same (a
		// DISCONNECT at the end makes the end a graceful one)
		id := atoi(ws[1])
		c, ok := b.clients[id]
		if !ok || c.dead || !c.accepted || c.mid() {
			return "-"
		}
		b.rawConn = id
		c.pend = nil
		if len(ws) > 3 && ws[3] == "eof" && c.half != nil {
			// the last bytes and the end of the stream reach the broker in ONE read (n > 0, io.EOF)
			atomic.StoreInt32(&c.half.finalNext, 1)
		}
		c.write(unhex(ws[2]))
		c.conn.Close()
		c.waitUntil(func() bool { return c.eof }, brokerWait)
		return b.collect(id, false, nil)
	case "unsubrace":
		return b.unsubRace(ws)
	case "hsrace":
		return b.hsRace(ws)
	case "close":
		id := atoi(ws[1])
		c, ok := b.clients[id]
		if !ok || c.dead {
			return "-"
		}
		b.rawConn = id
		c.pend = nil
		c.conn.Close()
		c.waitUntil(func() bool { return c.eof }, brokerWait)
		return b.collect(id, false, nil)
	case "srvpub":
		p := parseWPub(ws[1:])
		m := message.NewPublishMessage()
		m.SetTopic(p.topic)
		m.SetQoS(byte(p.qos))
		m.SetRetain(p.retain)
		m.SetDup(p.dup)
		if p.id > 0 {
			m.SetPacketID(uint16(p.id))
		}
		m.SetPayload(p.payload)
		err := b.svr.Publish(m)
		return b.collect(-1, err != nil, nil)
	case "srvsub":
		err := b.svr.Subscribe(string(unhex(ws[2])), byte(atoi(ws[3])), b.cb(atoi(ws[1])))
		return b.collect(-1, err != nil, nil)
	case "srvsubrepub":
		// srvsubrepub <cb> <filter> <qos> <target>
		b.cbmu.Lock()
		b.repub[atoi(ws[1])] = unhex(ws[4])
		b.cbmu.Unlock()
		err := b.svr.Subscribe(string(unhex(ws[2])), byte(atoi(ws[3])), b.cb(atoi(ws[1])))
		return b.collect(-1, err != nil, nil)
	case "srvunsub":
		err := b.svr.Unsubscribe(string(unhex(ws[2])), b.cb(atoi(ws[1])))
		return b.collect(-1, err != nil, nil)
	}
	return "bad-op"
}

// connectFieldsBytes encodes the CONNECT described by the twelve fields of a `first <c> connect …`
// line: protocol name, level, reserved flag, CleanSession, will, will QoS / will RETAIN bits without
// a will, client identifier, user name, password, keep-alive, "authentication succeeds" (0: the user
// name is replaced by "deny", which the harness's authenticator refuses).
func connectFieldsBytes(f []string) []byte {
	c := wConnect{protoName: unhex(f[0]), version: atoi(f[1]), reserved: f[2] == "1", clean: f[3] == "1",
		willQosNoWill: atoi(f[5]), willRetainNoWill: f[6] == "1", clientID: unhex(f[7]),
		user: parseOptBytes(f[8]), pass: parseOptBytes(f[9]), keepAlive: atoi(f[10])}
	if f[4] != "~" {
		w := strings.Split(f[4], ":")
		c.will = &wWill{topic: unhex(w[0]), payload: unhex(w[1]), qos: atoi(w[2]), retain: w[3] == "1"}
	}
	if f[11] != "1" {
		u := []byte("deny")
		c.user = &u
	}
	return c.encode()
}

// clientPacketBytes encodes a client-to-server packet given in the op-line grammar of `pkt`.
func clientPacketBytes(ws []string) []byte {
	switch ws[0] {
	case "publish":
		return parseWPub(ws[1:]).encode()
	case "subscribe":
		var ts [][]byte
		var qs []int
		for _, e := range strings.Split(ws[2], ",") {
			f := strings.Split(e, ":")
			ts = append(ts, unhex(f[0]))
			qs = append(qs, atoi(f[1]))
		}
		return wSubscribe(atoi(ws[1]), ts, qs)
	case "pingreq":
		return []byte{0xc0, 0x00}
	case "disconnect":
		return []byte{0xe0, 0x00}
	}
	return nil
}

// ---- byte-level events (property C05) -------------------------------------------------------

const (
	tailNone  = iota // the bytes end at a packet boundary
	tailQuiet        // an incomplete packet: the broker waits for more
	tailFatal        // the broker gives up on the header: a fifth length byte, or a packet larger than the ring
)

// scanFrames frames buf the way any MQTT receiver must (type byte, remaining length of at most
// four bytes, that many bytes): k = end of the last complete frame, pings = complete PINGREQ
// frames among them (each is answered by a PINGRESP if the connection lives that long), and
// what the bytes behind k are.  Used only to know when to wait for what; the expectation
// itself comes from the Lean model.
func scanFrames(buf []byte, ring int) (k, pings, tail int) {
	i := 0
	for {
		if i == len(buf) {
			return i, pings, tailNone
		}
		rem, mult, m, done := 0, 1, 0, false
		for m < 4 {
			if i+1+m >= len(buf) {
				return i, pings, tailQuiet
			}
			d := buf[i+1+m]
			rem += int(d&0x7f) * mult
			mult *= 128
			m++
			if d&0x80 == 0 {
				done = true
				break
			}
		}
		if !done {
			return i, pings, tailFatal
		}
		total := 1 + m + rem
		if ring > 0 && total > ring {
			return i, pings, tailFatal
		}
		if i+total > len(buf) {
			return i, pings, tailQuiet
		}
		if buf[i] == 0xc0 && rem == 0 {
			pings++
		}
		i += total
	}
}

// rawWrite writes data on an accepted connection and appends the observations to groups:
// first everything up to the end of the last packet that is complete now, then a barrier
// round (the connection is at a packet boundary), then the bytes of the incomplete packet.
func (b *brokerCore) rawWrite(c *rawClient, data []byte, groups map[int][]string) {
	b.rawWriteWhile(c, data, groups, nil)
}

// rawWriteWhile: like rawWrite; `during` (if any) runs concurrently with the first write on c.
func (b *brokerCore) rawWriteWhile(c *rawClient, data []byte, groups map[int][]string, during func()) {
	together := func(w func()) {
		if during == nil {
			w()
			return
		}
		done := make(chan struct{})
		go func() { w(); close(done) }()
		during()
		during = nil
		<-done
	}
	stream := append(append([]byte{}, c.pend...), data...)
	written := len(c.pend)
	k, pings, tail := scanFrames(stream, b.ring)
	if k > written {
		c.mu.Lock()
		c.pings += pings
		c.eventPings += pings
		c.mu.Unlock()
		together(func() { c.write(stream[written:k]) })
		written = k
		c.pend = nil
		b.collectInto(groups, c.id)
		if c.dead {
			return
		}
	}
	if len(stream) > written {
		together(func() { c.write(stream[written:]) })
	} else if during != nil {
		together(func() {})
	}
	c.pend = append([]byte{}, stream[k:]...)
	if tail == tailFatal {
		c.waitUntil(func() bool { return c.eof }, brokerWait)
		c.pend = nil
	}
	if k <= len(stream)-len(data) || tail == tailFatal {
		// nothing completed (the others are observed all the same), or the connection should be gone now
		b.collectInto(groups, c.id)
	}
}

// rawFirst opens connection id and sends data as the first thing on it.  closes: the client
// closes its end when it has sent everything (after reading the answer to a complete first packet).
func (b *brokerCore) rawFirst(id int, data []byte, closes bool) string {
	b.rawConn, b.keepConnack = id, true
	return b.render(b.rawFirstGroups(id, data, closes), false)
}

// rawFirstGroups: the observations of rawFirst, per connection, not yet rendered.
func (b *brokerCore) rawFirstGroups(id int, data []byte, closes bool) map[int][]string {
	n, _, tail := scanFrames(data, 0)
	complete := false
	if n > 0 {
		// the first complete frame only
		n, _, _ = scanFrames(data[:firstFrameLen(data)], 0)
		complete = true
	}
	cl, sv := net.Pipe()
	c := newRawClient(id, cl)
	c.stopped = make(chan struct{})
	stoppedMu.Lock()
	stoppedChans[sv] = c.stopped
	stoppedMu.Unlock()
	b.clients[id] = c
	served := make(chan struct{})
	go func() { b.svr.VerifServe(sv); close(served) }()
	refused := func(items []string, ok bool) map[int][]string {
		if !ok {
			items = append(items, "TIMEOUT")
			c.conn.Close()
		}
		// the handler may still be busy with what the bytes made it allocate (up to 2 x 256 MB for an
		// announced length): let it return before the next event starts its own connect deadline
		select {
		case <-served:
		case <-time.After(brokerWait):
			items = append(items, "SERVE-TIMEOUT")
		}
		items = append(items, "CLOSED")
		c.dead = true
		stoppedMu.Lock()
		delete(stoppedChans, sv)
		stoppedMu.Unlock()
		groups := map[int][]string{id: items}
		b.collectInto(groups, -1)
		return groups
	}
	if !complete {
		if len(data) > 0 {
			c.write(data)
		}
		if closes && tail != tailFatal {
			c.conn.Close()
		}
		// otherwise the broker gives up: at once on a fifth length byte, else at its connect deadline
		ok := c.waitUntil(func() bool { return c.eof }, brokerWait)
		return refused(c.take(), ok)
	}
	writeFirst(c, data[:n])
	c.waitUntil(func() bool { return len(c.items) > 0 || c.eof }, brokerWait)
	c.mu.Lock()
	if len(c.items) > 0 && strings.HasPrefix(c.items[0], "CONNACK") && strings.HasSuffix(c.items[0], " 0") {
		c.accepted = true
	}
	c.mu.Unlock()
	if !c.accepted {
		ok := c.waitUntil(func() bool { return c.eof }, brokerWait)
		return refused(c.take(), ok)
	}
	groups := map[int][]string{}
	b.collectInto(groups, id)
	if !c.dead && len(data) > n {
		b.rawWrite(c, data[n:], groups)
	}
	if !c.dead && closes {
		c.pend = nil
		c.conn.Close()
		c.waitUntil(func() bool { return c.eof }, brokerWait)
		b.collectInto(groups, id)
	}
	return groups
}

// writeFirst writes the first packet(s) of a connection; one input in eight (chosen by its content, so
// the same op line always behaves the same) goes out in two writes, split inside the body of the first
// packet.  On the in-memory pipe a read never spans two writes, so the broker's reader of the first
// packet gets a short read there - as it may on any TCP connection - and has to go on reading.
func writeFirst(c *rawClient, data []byte) error {
	sum := 0
	for _, x := range data {
		sum += int(x)
	}
	if len(data) > 8 && sum%8 == 0 {
		k := 4 + sum%(len(data)-6)
		if k > len(data)-1 {
			k = len(data) - 1
		}
		if err := c.write(data[:k]); err != nil {
			return err
		}
		return c.write(data[k:])
	}
	return c.write(data)
}

// firstFrameLen: length of the first complete frame of data (which scanFrames found to exist).
func firstFrameLen(data []byte) int {
	rem, mult, m := 0, 1, 0
	for {
		d := data[1+m]
		rem += int(d&0x7f) * mult
		mult *= 128
		m++
		if d&0x80 == 0 {
			break
		}
	}
	return 1 + m + rem
}

// race: `race <a> <hex|close> <p> <hex>` — connection a sends its bytes (or closes its socket) while
// connection p sends whole packets, with nothing in between: deliveries to a race with a's teardown.
// Observed afterwards like any other event; what a itself received is not compared once it is closed.
func (b *brokerCore) race(ws []string) string {
	a, okA := b.clients[atoi(ws[1])]
	p, okP := b.clients[atoi(ws[3])]
	if !okA || !okP || a == p || a.dead || p.dead || !a.accepted || !p.accepted || p.mid() || a.mid() {
		// (a mid-packet: its bytes would continue the pending packet instead of being what the event is
		// about — bytes or a close that end the connection —, and the outcome would depend on the order)
		return "-"
	}
	b.rawConn = a.id
	dataP := unhex(ws[4])
	kP, pingsP, _ := scanFrames(dataP, b.ring)
	p.mu.Lock()
	p.pings += pingsP
	p.eventPings += pingsP
	p.mu.Unlock()
	sendP := func() {
		if len(dataP) > 0 {
			p.write(dataP)
		}
		p.pend = append([]byte{}, dataP[kP:]...)
	}
	groups := map[int][]string{}
	if ws[2] == "close" {
		done := make(chan struct{})
		go func() { a.conn.Close(); close(done) }()
		sendP()
		<-done
		a.pend = nil
		a.waitUntil(func() bool { return a.eof }, brokerWait)
		b.collectInto(groups, a.id)
	} else {
		b.rawWriteWhile(a, unhex(ws[2]), groups, sendP)
	}
	return b.render(groups, false)
}

// unsubRace: `unsubrace <a> <p> <pktid> <f1,f2,…,fn> <topic> <payload>` - connection a sends ONE
// UNSUBSCRIBE for all the filters (which it holds: the generator has it subscribe them first); the
// moment a's client has RECEIVED the UNSUBACK - no barrier in between - connection p publishes
// (QoS 0) on a topic that matches the LAST filter of the list.  "From that acknowledgement on" the
// filters no longer take effect (C07): a must not get the message.  A broker that acknowledges
// before it has removed the filters is still walking the list when the PUBLISH arrives (the window
// grows with the length of the list).  Observed like two events on one line: p's barrier first (its
// PUBLISH has then been fanned out), then a's, then everybody else's.
func (b *brokerCore) unsubRace(ws []string) string {
	if len(ws) != 7 {
		return "bad-op"
	}
	a, okA := b.clients[atoi(ws[1])]
	p, okP := b.clients[atoi(ws[2])]
	if !okA || !okP || a == p || a.dead || p.dead || !a.accepted || !p.accepted || p.mid() || a.mid() {
		return "-"
	}
	var ts [][]byte
	for _, e := range strings.Split(ws[4], ",") {
		ts = append(ts, unhex(e))
	}
	want := fmt.Sprintf("UNSUBACK %d", atoi(ws[3]))
	pub := wPub{qos: 0, topic: unhex(ws[5]), payload: unhex(ws[6])}.encode()
	a.write(wUnsubscribe(atoi(ws[3]), ts))
	a.waitUntil(func() bool {
		for _, it := range a.items {
			if it == want {
				return true
			}
		}
		return a.eof
	}, brokerWait)
	p.write(pub)
	b.barrier(p)
	return b.collect(a.id, false, nil)
}

// hsRace: `hsrace <a> connect <the twelve CONNECT fields, user name "slow…"> ; <b> <hex>` - two
// handshakes that overlap.  Connection a's CONNECT is written and the harness waits until the broker
// is inside Authenticate for it (the authenticator holds every user "slow…" there); then the first
// packet of connection b is written and b is observed to the end (CONNACK, close, barriers if it was
// accepted); only then a is released and observed.  Whatever b sent - a CONNECT that is refused, a
// malformed one, an accepted one - must have no effect on what a is connected as (C11, C10): the
// events are b's first packet, then a's, one output line.
func (b *brokerCore) hsRace(ws []string) string {
	if len(ws) != 18 || ws[2] != "connect" || ws[15] != ";" {
		return "bad-op"
	}
	aid, bid, data := atoi(ws[1]), atoi(ws[16]), unhex(ws[17])
	g := &slowGate{entered: make(chan struct{}, 1), release: make(chan struct{})}
	setGate(g)
	released := false
	release := func() {
		if !released {
			released = true
			close(g.release)
			setGate(nil)
		}
	}
	defer release()
	cl, sv := net.Pipe()
	ca := newRawClient(aid, cl)
	ca.stopped = make(chan struct{})
	stoppedMu.Lock()
	stoppedChans[sv] = ca.stopped
	stoppedMu.Unlock()
	b.clients[aid] = ca
	go b.svr.VerifServe(sv)
	ca.write(connectFieldsBytes(ws[3:15]))
	// until a's Authenticate call has been entered (a CONNECT the decoder refuses never gets there)
	deadline := time.After(brokerWait)
wait:
	for {
		select {
		case <-g.entered:
			break wait
		case <-deadline:
			break wait
		case <-time.After(2 * time.Millisecond):
			ca.mu.Lock()
			gone := ca.eof
			ca.mu.Unlock()
			if gone {
				break wait
			}
		}
	}
	b.rawConn, b.keepConnack = bid, true
	groups := b.rawFirstGroups(bid, data, false)
	release()
	ca.waitUntil(func() bool { return len(ca.items) > 0 || ca.eof }, brokerWait)
	ca.mu.Lock()
	if len(ca.items) > 0 && strings.HasPrefix(ca.items[0], "CONNACK") && strings.HasSuffix(ca.items[0], " 0") {
		ca.accepted = true
	}
	ca.mu.Unlock()
	if !ca.accepted {
		ok := ca.waitUntil(func() bool { return ca.eof }, brokerWait)
		items := ca.take()
		if !ok {
			items = append(items, "TIMEOUT")
			ca.conn.Close()
		}
		items = append(items, "CLOSED")
		ca.dead = true
		stoppedMu.Lock()
		delete(stoppedChans, sv)
		stoppedMu.Unlock()
		groups[aid] = append(groups[aid], items...)
		b.collectInto(groups, -1)
	} else {
		b.collectInto(groups, aid)
	}
	return b.render(groups, false)
}
