package main

// A small reference MQTT 3.1.1 encoder/decoder used by the raw test clients of
// the broker harness.  Written from the MQTT specification; it does not use the
// library's codec.

import (
	"errors"
	"fmt"
	"strings"
)

func wVarint(n int) []byte {
	var b []byte
	for {
		d := byte(n % 128)
		n /= 128
		if n > 0 {
			d |= 0x80
		}
		b = append(b, d)
		if n == 0 {
			return b
		}
	}
}

func wStr(s []byte) []byte {
	return append([]byte{byte(len(s) >> 8), byte(len(s))}, s...)
}

func wPacket(first byte, body []byte) []byte {
	out := append([]byte{first}, wVarint(len(body))...)
	return append(out, body...)
}

func wID(id int) []byte { return []byte{byte(id >> 8), byte(id)} }

type wPub struct {
	dup     bool
	qos     int
	retain  bool
	topic   []byte
	id      int
	payload []byte
}

func (p wPub) encode() []byte {
	f := byte(0x30)
	if p.dup {
		f |= 8
	}
	f |= byte(p.qos) << 1
	if p.retain {
		f |= 1
	}
	body := wStr(p.topic)
	if p.qos > 0 {
		body = append(body, wID(p.id)...)
	}
	body = append(body, p.payload...)
	return wPacket(f, body)
}

func b01(b bool) string {
	if b {
		return "1"
	}
	return "0"
}

func (p wPub) String() string {
	return fmt.Sprintf("PUB %s %d %s %s %d %s", b01(p.dup), p.qos, b01(p.retain), hexOf(p.topic), p.id, hexOf(p.payload))
}

type wWill struct {
	topic, payload []byte
	qos            int
	retain         bool
}

type wConnect struct {
	protoName        []byte
	version          int
	reserved         bool
	clean            bool
	will             *wWill
	willQosNoWill    int
	willRetainNoWill bool
	clientID         []byte
	user, pass       *[]byte
	keepAlive        int
}

func (c wConnect) encode() []byte {
	var flags byte
	if c.reserved {
		flags |= 1
	}
	if c.clean {
		flags |= 2
	}
	if c.will != nil {
		flags |= 4
		flags |= byte(c.will.qos&3) << 3
		if c.will.retain {
			flags |= 0x20
		}
	} else {
		flags |= byte(c.willQosNoWill&3) << 3
		if c.willRetainNoWill {
			flags |= 0x20
		}
	}
	if c.pass != nil {
		flags |= 0x40
	}
	if c.user != nil {
		flags |= 0x80
	}
	body := wStr(c.protoName)
	body = append(body, byte(c.version), flags, byte(c.keepAlive>>8), byte(c.keepAlive))
	body = append(body, wStr(c.clientID)...)
	if c.will != nil {
		body = append(body, wStr(c.will.topic)...)
		body = append(body, wStr(c.will.payload)...)
	}
	if c.user != nil {
		body = append(body, wStr(*c.user)...)
	}
	if c.pass != nil {
		body = append(body, wStr(*c.pass)...)
	}
	return wPacket(0x10, body)
}

func wSubscribe(id int, topics [][]byte, qos []int) []byte {
	body := wID(id)
	for i, t := range topics {
		body = append(body, wStr(t)...)
		body = append(body, byte(qos[i]))
	}
	return wPacket(0x82, body)
}

func wUnsubscribe(id int, topics [][]byte) []byte {
	body := wID(id)
	for _, t := range topics {
		body = append(body, wStr(t)...)
	}
	return wPacket(0xa2, body)
}

func wAck(ptype int, id int) []byte {
	first := byte(ptype << 4)
	if ptype == 6 {
		first |= 2
	}
	return wPacket(first, wID(id))
}

var errNeedMore = errors.New("need more bytes")

// wParse strictly parses one server-to-client packet from the front of buf and
// returns its canonical text and length; errNeedMore if buf holds only a prefix.
func wParse(buf []byte) (string, int, error) {
	if len(buf) < 2 {
		return "", 0, errNeedMore
	}
	rem, mult, i := 0, 1, 1
	for {
		if i >= len(buf) {
			return "", 0, errNeedMore
		}
		if i > 4 {
			return "", 0, fmt.Errorf("remaining length longer than 4 bytes")
		}
		d := buf[i]
		rem += int(d&0x7f) * mult
		mult *= 128
		i++
		if d&0x80 == 0 {
			break
		}
	}
	if len(buf) < i+rem {
		return "", 0, errNeedMore
	}
	body := buf[i : i+rem]
	total := i + rem
	ptype, flags := int(buf[0]>>4), buf[0]&0xf
	need := func(n int) error {
		if len(body) != n {
			return fmt.Errorf("type %d: remaining length %d, want %d", ptype, len(body), n)
		}
		return nil
	}
	id := func() int { return int(body[0])<<8 | int(body[1]) }
	switch ptype {
	case 2:
		if err := need(2); err != nil || flags != 0 {
			return "", 0, fmt.Errorf("bad CONNACK %x", buf[:total])
		}
		if body[0] > 1 || body[1] > 5 {
			return "", 0, fmt.Errorf("bad CONNACK fields %x", buf[:total])
		}
		return fmt.Sprintf("CONNACK %d %d", body[0], body[1]), total, nil
	case 3:
		p := wPub{dup: flags&8 != 0, qos: int(flags>>1) & 3, retain: flags&1 != 0}
		if p.qos == 3 || len(body) < 2 {
			return "", 0, fmt.Errorf("bad PUBLISH %x", buf[:total])
		}
		tl := int(body[0])<<8 | int(body[1])
		if len(body) < 2+tl {
			return "", 0, fmt.Errorf("bad PUBLISH topic length %x", buf[:total])
		}
		p.topic = append([]byte{}, body[2:2+tl]...)
		rest := body[2+tl:]
		if p.qos > 0 {
			if len(rest) < 2 {
				return "", 0, fmt.Errorf("PUBLISH without packet id %x", buf[:total])
			}
			p.id = int(rest[0])<<8 | int(rest[1])
			rest = rest[2:]
		}
		p.payload = append([]byte{}, rest...)
		if len(p.topic) == 0 || strings.ContainsAny(string(p.topic), "#+") {
			return "", 0, fmt.Errorf("PUBLISH with invalid topic name %x", buf[:total])
		}
		return p.String(), total, nil
	case 4, 5, 6, 7, 11:
		want := byte(0)
		if ptype == 6 {
			want = 2
		}
		if err := need(2); err != nil || flags != want {
			return "", 0, fmt.Errorf("bad ack packet %x", buf[:total])
		}
		name := map[int]string{4: "PUBACK", 5: "PUBREC", 6: "PUBREL", 7: "PUBCOMP", 11: "UNSUBACK"}[ptype]
		return fmt.Sprintf("%s %d", name, id()), total, nil
	case 9:
		if len(body) < 3 || flags != 0 {
			return "", 0, fmt.Errorf("bad SUBACK %x", buf[:total])
		}
		var cs []string
		for _, c := range body[2:] {
			cs = append(cs, fmt.Sprint(int(c)))
		}
		return fmt.Sprintf("SUBACK %d %s", id(), strings.Join(cs, ",")), total, nil
	case 13:
		if err := need(0); err != nil || flags != 0 {
			return "", 0, fmt.Errorf("bad PINGRESP %x", buf[:total])
		}
		return "PINGRESP", total, nil
	}
	return "", 0, fmt.Errorf("unexpected packet type %d from server: %x", ptype, buf[:total])
}
