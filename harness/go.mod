module verif/harness

go 1.21

require github.com/mdzio/go-mqtt v0.0.0

replace github.com/mdzio/go-mqtt => /repo
