"""paths, environment, subprocess helpers"""
import os, subprocess, fcntl, time, contextlib

VERIF = os.path.abspath(os.path.join(os.path.dirname(__file__), '..', '..'))
REPO = os.environ.get('VERIF_REPO', '/repo')
LEAN = os.path.join(VERIF, 'lean')
HARNESS = os.path.join(VERIF, 'harness')
EXTRACT = os.path.join(VERIF, 'extract')
WORK = os.path.join(VERIF, 'work')
DRV = os.path.join(LEAN, '.lake', 'build', 'bin', 'mqttdrv')
CORR = os.path.join(HARNESS, 'corr')
FACTS = os.path.join(LEAN, 'Mqtt', 'Generated', 'Facts.lean')
XLATE = os.path.join(LEAN, 'Mqtt', 'Generated', 'Xlate.lean')

GOENV = dict(os.environ, GOFLAGS='-mod=mod', GOPROXY='off', GOSUMDB='off', GOTOOLCHAIN='local',
             CGO_ENABLED=os.environ.get('CGO_ENABLED', '0'))
NCPU = os.cpu_count() or 4


def run(cmd, cwd=None, env=None, stdin=None, timeout=None, stdout=subprocess.PIPE, stderr=subprocess.STDOUT):
    """returns (rc, stdout(+stderr) text); rc = -9 on timeout"""
    try:
        p = subprocess.run(cmd, cwd=cwd, env=env, input=stdin, stdout=stdout,
                           stderr=stderr, timeout=timeout)
        return p.returncode, (p.stdout.decode('utf-8', 'replace') if p.stdout else '')
    except subprocess.TimeoutExpired as e:
        out = e.stdout.decode('utf-8', 'replace') if e.stdout else ''
        return -9, out + '\n[timeout]'


@contextlib.contextmanager
def build_lock():
    """serialises extractor / lake / go build between concurrently running checks"""
    os.makedirs(WORK, exist_ok=True)
    f = open(os.path.join(WORK, '.build.lock'), 'w')
    fcntl.flock(f, fcntl.LOCK_EX)
    try:
        yield
    finally:
        fcntl.flock(f, fcntl.LOCK_UN)
        f.close()


def workdir(pid):
    d = os.path.join(WORK, pid)
    os.makedirs(d, exist_ok=True)
    return d
