"""C16 — every connection is torn down completely in bounded time, in any state (Core F, connection life-cycle).

Op lines are fault sequences on the REAL broker: `life run <cond> <cause> [<order>]` puts a subject connection
into a buffer condition (idle, own outgoing ring full, incoming ring full behind a third party's full outgoing
ring, processor parked in its own outgoing ring, cross-blocked pair, a packet that needs the last read block of
the ring arriving in pieces - never completed / completed: the regression scenarios of finding F3, repaired by
8f682d1), ends it for a cause (DISCONNECT, abrupt close, protocol error, oversized packet,
keep-alive expiry, Server.Close) with the third party ending before or after it, and reports

    [held-up-by-third] [held-up-by-self] torn=. will=. witness-alive=. srvclose=. goroutines-left=.

The model stream is computed from lean/Mqtt/Model/Lifecycle.lean (the condition is a model state, the cause an
environment event, the outcome what a fair round-robin schedule reaches); the tie is line equality, tokens
included.  The specification (lean/Mqtt/Spec/Lifecycle.lean) is the property text: teardown complete, will unless
DISCONNECT, bystander alive, Server.Close returns, no goroutine left.  The oracle ignores the `held-up-by-third`
token: it marks the property's exemption (ANOTHER still-open connection that has stopped reading holds up a
delivery from the subject; the harness then ends that connection and the teardown has to complete) -
except when the cause is Server.Close, whose return the property demands without exemption.
`held-up-by-self` (the subject's processor is parked behind the subject's OWN client) is no exemption since
the repair b77088f (finding F7): the oracle rejects it; it is still seen - as the open finding F8 - where the
cause cannot be noticed at all (`selffull keepalive`, `selffull halfclose`: the receiver waits because the incoming ring
is completely full, no read is pending - no deadline is armed, an end-of-stream is not read).
"""
from .props import Prop, Run, register, COMMON_TRUSTED
from .props_ka import ka_oracle, ka_recv_parked

_TOKENS = ('held-up-by-third',)


def _strip(line):
    return ' '.join(w for w in line.split() if w not in _TOKENS)


def life_oracle(op, impl, spec):
    w = op.split()
    if w and w[0] == 'ka':
        # witnesses of the keep-alive findings F7 / F8, which are findings of C16 as well
        return ka_oracle(op, impl, spec)
    if len(w) >= 4 and w[3] == 'srvclose':
        # "Server.Close returns" carries no exemption: a Close that was still waiting behind a third
        # party's client when the harness gave up on it (token held-up-by-third) has failed
        return impl == spec
    return _strip(impl) == spec


def life_nontrivial(op, out):
    return out not in ('reset', 'bad-op')


def recv_parked(ops_prefix, impl=None, spec=None):
    """known-finding class F8: keep-alive on a connection whose receiver waits because the incoming ring is completely
    full (both rings full behind a client that has stopped reading and kept sending): no socket read is pending, the
    deadline is not armed; the harness reports `held-up-by-self` and ends the client"""
    w = ops_prefix[-1].split()
    if w and w[0] == 'ka':
        return ka_recv_parked(ops_prefix, impl, spec)
    return len(w) >= 4 and w[0] == 'life' and w[1] == 'run' and w[2] == 'selffull' and w[3] in ('keepalive', 'halfclose')


LIFE_ASSUMPTIONS = [
    "bounded time = bounded number of own steps: the rank is an explicit natural number that every step of every thread of the "
    "connection lowers; that an enabled goroutine is eventually run (weak fairness of the Go scheduler) is a hypothesis",
    "the two rings are abstracted to (bytes buffered, done) with one atomic step per ring call; what this relies on - Close always "
    "returns, done makes every blocked or later call return end-of-stream, a producer/consumer blocked for space/data proceeds once "
    "it is there, no mutex is leaked by a returned call - is the call-level contract proved for the real ring in C15 "
    "(C15_CloseTerminates, C15_DoneUnblocks, C15_Progress, C15_NoLeak); C16 imports C15's lock-structure fact so a changed buffer.go breaks it",
    "socket semantics are parameters of the model (trusted): Close unblocks a pending Read/Write with an error, a read on a closed "
    "socket fails, a write blocks while the peer does not read, the read deadline fires only while a Read is pending",
    "sync.WaitGroup, sync.Mutex (wmu), atomic CompareAndSwap and channel close as in the Go memory model (sequentially consistent)",
    "one connection is modelled; the rest of the broker is its environment (other connections' processors as external writers, the "
    "connection a delivery is addressed to as the flag extBlocked, Server.Close as preClose + a stopper); the scenarios run the real broker",
    "scenarios use a 16 KiB ring, 1000-byte payloads, net.Pipe sockets (unbuffered) and deadlines of 2.5 s (held-up detection) / 5 s",
]

register(Prop(
    # 'ka': the witnesses of F7 / F8 (findings of C19 AND C16) are ka lines; they are judged by `life_oracle`
    # (= the C19 oracle on ka lines), not literally (the specification line of a ka scenario has no window field)
    'C16', 'Mqtt.Properties.C16', ['life', 'ka'],
    runs=[Run('life', quick=13, thorough=44, seeds_thorough=2),
          Run('life-pairs', quick=9, thorough=36, seeds_thorough=2),
          Run('life-srv', quick=5, thorough=20, seeds_thorough=2),
          Run('life-chunked', quick=5, thorough=14, seeds_thorough=1, extra=())],
    oracle=life_oracle, nontrivial=life_nontrivial, spec_total=False,
    classes={'recv_parked': recv_parked},
    assumptions=LIFE_ASSUMPTIONS,
    trusted=COMMON_TRUSTED + [
        "regenerated facts: statement order of service.stop (CAS, close(done), conn.Close, in.Close, out.Close, wgStopped.Wait, unsubscribe, "
        "will, session delete), its guards, the deferred recover of processor/receiver/sender/stop, processor's deferred Done-then-stop, "
        "the processor loop, writeMessage's lock structure, Server.Close closing all outgoing rings before the first stop, the receiver's "
        "`if err != nil { conn.Close(); return }` after ReadFrom (tied by decide)",
        "the harness's raw clients, its teardown-finished hook (build tag verif), the goroutine dump filtered to library frames",
    ]))
