"""C09 / C10 / C16: the held take-over scenarios (`life takeover <variant>`, harness/cmd/corr/life_takeover.go).

The broker runs serialise events behind barriers, so a CONNECT with the client identifier of a live connection
always meets a teardown that starts and finishes inside the event.  What the take-over code is FOR shows only when
the old connection's teardown is pending while the CONNECT arrives - held by a third connection whose client does
not read - or when the old connection's DISCONNECT is received but not yet processed.  The scenarios make exactly
that deterministic on the real broker (every wait is on an event; "nothing happens" is observed on a broker that
cannot proceed) and report one summary line; the model line is computed from Model/Takeover (disconnectClient as a
program over live / ending / stopped connections), Model/Lifecycle (the parked processor with a queued DISCONNECT,
Server.Close) and Model/Broker (will, SessionPresent, kept subscription), the specification line from the property
text and the reference broker (lean/Mqtt/Driver/Life.lean, lean/Mqtt/Spec/Lifecycle.lean).

  resume    C10: the CONNECT is answered only when the old teardown has finished; the state of the new
            CleanSession=0 connection survives the old (CleanSession=1) connection's late end: the next CONNECT gets
            SessionPresent=1 and the subscription
  srvclose  C16: Server.Close returns while a take-over waits (disconnectClient does not hold Server.mu)
  disc      C09: DISCONNECT received, then taken over while the processor is still parked: no will
"""
from .props import PROPS, Run
from .props_life import life_oracle, life_nontrivial

TAKEOVER_ASSUMPTION = (
    "held take-over scenarios (`life takeover`): a subscriber that has stopped reading, its 16 KiB outgoing ring and the "
    "unbuffered pipe behind it filled by a flooding publisher, holds the old connection's teardown (will publish) or processor "
    "(a PUBLISH with the DISCONNECT queued behind it); `held` (the teardown had not finished when the hold-up was ended) is the "
    "premise and part of the line; `early` is a bounded observation (no CONNACK within 700 ms on a broker that cannot proceed); "
    "the statement orders that the scenarios exercise are also regenerated facts (C09_stop_reads_will_after_wait, "
    "C10_takeover_shape_is_source, C10_resumable_is_source, C16_disconnectClient_waits_without_mu)")


def _with_takeover(p, gen, quick, thorough):
    o_or, o_nt = p.oracle, p.nontrivial
    if 'life' not in p.cores:
        p.cores = list(p.cores) + ['life']
        p.oracle = lambda op, a, b: life_oracle(op, a, b) if op.split()[0] == 'life' else o_or(op, a, b)
        p.nontrivial = lambda op, out: life_nontrivial(op, out) if op.split()[0] == 'life' else o_nt(op, out)
    p.runs = list(p.runs) + [Run(gen, quick=quick, thorough=thorough, seeds_thorough=2)]
    p.assumptions = list(p.assumptions) + [TAKEOVER_ASSUMPTION]


for _pid, _gen, _q, _t in (('C09', 'life-takeover-will', 1, 3), ('C10', 'life-takeover-sess', 1, 3),
                           ('C16', 'life-takeover-close', 2, 6)):
    if _pid in PROPS:
        _with_takeover(PROPS[_pid], _gen, _q, _t)
