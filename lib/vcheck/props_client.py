"""Client role (C12, C20)"""
import re
from .props import Prop, Run, register, COMMON_TRUSTED


def item_match(impl, spec):
    if impl == spec:
        return True
    wi, ws = impl.split(), spec.split()
    if len(wi) != len(ws):
        return False
    for a, b in zip(wi, ws):
        if b == '*':
            continue
        if b.startswith('+'):
            # an identifier the library assigns: non-zero and none of those in flight (listed after '!')
            if a == '0' or a in b[2:].split(','):
                return False
            continue
        if a != b:
            return False
    return True


def client_oracle(op, impl, spec):
    if spec == '*' or impl == spec:
        return True
    if impl in ('panic', 'bad-op'):
        return False
    ii = [] if impl == '-' else impl.split(';')
    ss = [] if spec == '-' else spec.split(';')
    if len(ii) != len(ss):
        return False
    # CB items are sorted on both sides by their full text; wildcards can change the order: match as multisets
    icb = [x for x in ii if x.startswith('CB ')]
    scb = [x for x in ss if x.startswith('CB ')]
    iot = [x for x in ii if not x.startswith('CB ')]
    sot = [x for x in ss if not x.startswith('CB ')]
    if len(icb) != len(scb) or any(not item_match(a, b) for a, b in zip(iot, sot)):
        return False
    rest = list(icb)
    for s in scb:
        for k, a in enumerate(rest):
            if item_match(a, s):
                del rest[k]
                break
        else:
            return False
    return True


def client_nontrivial(op, out):
    return out not in ('reset', '-')


CLIENT_ASSUMPTIONS = [
    "one event = one atomic step; an acknowledgement that arrives between the write of a request and its registration is an explicit composite event, forced on the real code through the verif ack-window hook: the harness holds the sending call inside the window, sends the acknowledgement and a PINGREQ behind it, and lets the call go when the PINGRESP arrives or after 15 ms (the repaired library holds the acknowledgement back until the registration, service.ackmu, so the PINGRESP cannot arrive earlier); that the acknowledgement cannot be processed inside the window is proved on the small-step model of the two critical sections (C12_ack_waits_for_registration) whose programs are tied to the source by extracted facts (C12_ack_lock_structure_is_source)",
    "the peer is scripted over TCP on 127.0.0.1; a PINGREQ/PINGRESP barrier from the peer bounds each event",
    "the interleaving between packets the peer receives and callbacks firing inside one event is not observable: outputs are compared as (packets in order, completions in order, message callbacks as a multiset)",
    "ack queues are the FIFO lists of Spec.Fifo (justified by C13); completion order is the FIFO order (the latest the property permits)",
    "an acknowledgement written #<tag> on an op line bears the identifier the request with that completion tag was written with (each stream resolves it from its own output: the scripted peer acknowledges what it received); the specification knows a request whose identifier the library assigns by a name outside the 16-bit range and demands of the value only: non-zero, not in flight",
    "the process-wide counter behind automatic identifiers is set to 0 by every reset and to the given value by `client setctr` (stands for the identifiers other connections of the process have drawn), on the implementation (verif hook) and in the model",
    "a message callback id on an op line stands for the Subscribe request (service.subscribe allocates one &onPublish pointer per call, and the client invokes each pointer once per message): a Subscribe line that reuses a callback id of its episode is refused (bad-op) by harness and driver alike",
]


def mk(pid, runs):
    from .props import ackq_oracle, ackq_nontrivial, by_core
    runs = list(runs) + [Run('ackq', quick=40000, thorough=300000, seeds_thorough=4)]
    register(Prop(pid, 'Mqtt.Properties.' + pid, ['client', 'ackq'], runs=runs,
                  oracle=by_core({'client': client_oracle, 'ackq': ackq_oracle}),
                  nontrivial=by_core({'client': client_nontrivial, 'ackq': ackq_nontrivial}),
                  spec_total=False, classes={},
                  assumptions=CLIENT_ASSUMPTIONS, trusted=COMMON_TRUSTED))


mk('C12', [Run('client', quick=30000, thorough=120000, seeds_thorough=8)])
mk('C20', [Run('client', quick=30000, thorough=120000, seeds_thorough=8)])


# C02 covers both roles: broker runs (props_broker) and client runs
from .props import PROPS, by_core
from . import props_broker as _pb
_c02 = PROPS.get('C02')
if _c02 is not None:
    # the QoS 2 queue of both roles is the ring-based Ackqueue, used through its FIFO specification
    # (C02_pub2in_is_ackqueue + C13_refines): the ack-queue correspondence is part of this property's tie
    from .props import ackq_oracle, ackq_nontrivial
    _c02.cores = ['broker', 'client', 'ackq']
    _c02.runs = list(_c02.runs) + [Run('client', quick=20000, thorough=100000, seeds_thorough=6),
                                   Run('ackq', quick=40000, thorough=300000, seeds_thorough=4)]
    _c02.oracle = by_core({'broker': _pb.broker_oracle, 'client': client_oracle, 'ackq': ackq_oracle})
    _c02.nontrivial = by_core({'broker': _pb.broker_nontrivial, 'client': client_nontrivial, 'ackq': ackq_nontrivial})
    _c02.assumptions = list(_c02.assumptions) + CLIENT_ASSUMPTIONS
