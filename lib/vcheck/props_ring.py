"""Core D (byte ring, service/buffer.go): properties C14 (lossless FIFO) and C15 (blocking is live).

The op lines are schedules (`ring step <T>`) of thread programs; the implementation
stream comes from the model-guided scheduler driving the REAL buffer, the model stream
from lean/Mqtt/Model/Ring.lean.  The tie is line equality.  The specification
(lean/Mqtt/Spec/Ring.lean) does not determine the outcome of an interleaving, so the
oracle evaluates the property on what the implementation itself printed:

  C14  cursorsOk (cseq <= pseq <= cseq+size) on every line; every chunk handed to the
       consumer (`ret=read…`, `ret=use…`) is the test stream at the offset the harness's own
       byte count claims, and lies below the producer's commit position (chunkOk).
  C15  `ring finish` (fair round-robin to quiescence, then Close, then later calls):
       at quiescence only legitimate waiters (parked, ring open, have < need <= size = quiescentOk);
       after Close nobody is left, no mutex stays locked, later calls returned (closedOk), a later
       Write with end-of-stream; a call or step that never returns (`hang`) is a violation.
       On every step / call line (Spec.Ring.eofOk, doomed, doomedRetOk; the spec line carries `need=` of the
       stepping thread's consumer wait and `doomed=` of the producer, both from the state BEFORE the line):
       a consumer that arrives at an end-of-stream exit (marks 76 / 85 / 95: the statement after them is
       `Unlock; return io.EOF`) has decided for end-of-stream - then the ring must be closed and fewer bytes
       buffered than the call waits for, in that very state; a consumer call returns end-of-stream only from
       a closed ring; a producer call that was parked, or not yet begun, when the ring was seen closed does not
       return success ("Close makes every blocked or later call return with end-of-stream", finding F9).
"""
import re
from .props import XLATE_TRUSTED, Prop, Run, register, COMMON_TRUSTED, eq_lines

_hcache = {}


def ring_src(i):
    return (i * i + i // 3 + 7) % 256


def ring_hash(off, n):
    key = (off, n)
    h = _hcache.get(key)
    if h is None:
        h = sum((j + 1) * ((i * i + i // 3 + 7) & 255) for j, i in enumerate(range(off, off + n))) & 0xffffffff
        if len(_hcache) > 200000:
            _hcache.clear()
        _hcache[key] = h
    return h


_state = re.compile(r'p=(\d+) c=(\d+) g=(\d+) d=([01]) L=([01])([01]) pos=(\S*)')
_ret = re.compile(r' ret=(\w+):(\d+):(\w+):(\d+):(\d+):(\d+):([01])')
PASSIVE = ('reset', 'thread', 'dead', 'bad-op', 'dup', 'busy', 'nothread')


def _size(spec):
    w = spec.split()
    return int(w[1]) if len(w) >= 2 and w[0] == 'inv' else 16384


def _specfield(spec, key):
    for w in spec.split()[2:]:
        if w.startswith(key + '='):
            return w[len(key) + 1:]
    return None


EOF_EXITS = ('76', '85', '95')     # marks before `Unlock; return io.EOF` inside Read / ReadPeek / ReadWait
PRODUCER_CALLS = ('write', 'wwait', 'wcommit')
CONSUMER_WAITS = ('read', 'peek', 'rwait')


def _thread_index(name):
    if name == 'P':
        return 0
    if name == 'C':
        return 1
    if name.startswith('K') and name[1:].isdigit():
        return 2 + int(name[1:])
    return None


def c15_step_ok(op, impl, spec):
    """Spec.Ring.eofOk / doomedRetOk on one step or call line"""
    m = _state.search(impl)
    if not m:
        return True
    p, c, done = int(m.group(1)), int(m.group(2)), m.group(4) == '1'
    w = op.split()
    need = _specfield(spec, 'need')
    doomed = _specfield(spec, 'doomed') == '1'
    idx = _thread_index(w[2]) if len(w) > 2 else None
    pos = m.group(7).split(',')
    if need not in (None, '-') and idx is not None and idx < len(pos) and pos[idx] in EOF_EXITS:
        if not (done and p - c < int(need)):
            return False
    r = _ret.search(impl)
    if r:
        name, err = r.group(1), r.group(3)
        if name in CONSUMER_WAITS and err == 'eof' and not done:
            return False
        if name in PRODUCER_CALLS and err == 'ok' and doomed:
            return False
    return True


def c14_oracle(op, impl, spec):
    if impl in PASSIVE or impl.startswith('hang') or impl.startswith('skipped'):
        return True
    if impl.startswith('pipe'):
        return impl == 'pipe hang' or impl.endswith('pre=true')
    m = _state.search(impl)
    if not m:
        return False
    p, c = int(m.group(1)), int(m.group(2))
    size = _size(spec)
    if not (c <= p <= c + size):
        return False
    r = _ret.search(impl)
    if r and r.group(1) in ('read', 'use') and r.group(3) == 'ok':
        off, n, h = int(r.group(4)), int(r.group(5)), int(r.group(6))
        if int(r.group(2)) != n or off + n > p or ring_hash(off, n) != h:
            return False
    return True


_fin = re.compile(r'^fin q=\[([^\]]*)\]@d([01]) end=\[([^\]]*)\] lw=(\S+) lr=(\S+) ')


def c15_oracle(op, impl, spec):
    if impl in PASSIVE:
        return True
    if impl.startswith('hang '):
        # un-hooked sequential call that did not return: legitimate only if it waits for bytes / space
        # nobody has committed, on an open ring (quiescentOk)
        m = re.match(r'hang \w+:(\d+):(\d+)@d([01])$', impl)
        size = _size(spec)
        return bool(m) and m.group(3) == '0' and int(m.group(2)) < int(m.group(1)) <= size
    if impl == 'hang' or impl == 'pipe hang' or impl.startswith('skipped'):
        return False
    if impl.startswith('pipe'):
        return True
    w = op.split()
    if len(w) > 1 and w[1] == 'finish':
        m = _fin.match(impl)
        if not m:
            return False
        q, d, end, lw, lr = m.groups()
        sw = spec.split()
        size = int(sw[2]) if len(sw) == 3 else 16384
        for item in [x for x in q.split(';') if x]:
            name, pos, need, have = item.split(':')
            if not (pos.startswith('w') and d == '0' and int(have) < int(need) <= size):
                return False
        if end:
            return False
        s = _state.search(impl)
        if not s or s.group(5) != '0' or s.group(6) != '0':
            return False
        if lw not in ('eof', '-') or lr not in ('eof', 'ok', '-'):
            return False
        return True
    return _state.search(impl) is not None and c15_step_ok(op, impl, spec)


def ring_nontrivial(op, out):
    return out.startswith('ok ') or out.startswith('fin q=')


RING_ASSUMPTIONS = [
    "Go semantics assumed by the model (trusted, not verified): sync.Mutex (no owner check on Unlock), sync.Cond "
    "(Wait = join the wait list and unlock atomically w.r.t. Broadcast, woken only by Broadcast, re-locks on wake-up), "
    "sync/atomic loads and stores sequentially consistent, plain byte copies into disjoint regions of the ring",
    "int64 cursors modelled as naturals (2^63 bytes per connection unreachable); index = pos & (size-1) with size = 2^k",
    "the scheduler holds goroutines only at the verifYield marks of buffer.go: interleavings inside a byte copy are covered "
    "by the theorems (one step per byte) but not by the correspondence runs; a woken waiter re-acquires its mutex before "
    "any thread held at a mark (under-approximation of the tested schedules, not of the theorems)",
    "liveness (C15) is proved as invariants (no leaked mutex, no lost wake-up, straight-line Close, enabledness at "
    "quiescence); weak fairness of the Go scheduler is a hypothesis and wall-clock 'promptly' is not modelled",
    "ReadFrom is modelled whole (loop head, waitForWriteSpace(1), load of the consumer cursor, the reader filling the free "
    "contiguous slice, WriteCommit, deferred Close; the io.Reader is a script of byte counts) and scheduled at its marks like "
    "every other call; WriteTo (a loop over ReadPeek/ReadCommit with no shared access of its own) is exercised free-running "
    "only (pipe lines, prefix check against the stream)",
]

RING_TRUSTED = COMMON_TRUSTED + [
    "regenerated facts: defaultBufferSize/defaultReadBlockSize/defaultWriteBlockSize and the lock structure of service/buffer.go "
    "(tied to the model's lock structure by `decide`)",
    "yield hooks in service/buffer.go (build tag verif) and the harness classification of the marks read from the same source",
]

_runs = [Run('ring', quick=1500, thorough=12000, seeds_thorough=8),
         Run('ring-sweep', quick=2, thorough=3, seeds_thorough=1, exhaustive=True),
         Run('ring-soak', quick=3000, thorough=40000, seeds_thorough=4)]

register(Prop('C14', 'Mqtt.Properties.C14', ['ring'], runs=_runs, oracle=c14_oracle, nontrivial=ring_nontrivial,
              spec_total=False, assumptions=RING_ASSUMPTIONS, trusted=RING_TRUSTED + [XLATE_TRUSTED]))
register(Prop('C15', 'Mqtt.Properties.C15', ['ring'], runs=_runs, oracle=c15_oracle, nontrivial=ring_nontrivial,
              spec_total=False, assumptions=RING_ASSUMPTIONS, trusted=RING_TRUSTED))
