"""C01 / C02: what is handed on is the content of the original PUBLISH.  The PUBLISH being forwarded
is decoded in place in the publisher's incoming ring; the sequential broker model cannot exhibit a
ring lap, so both properties also run the concurrent-delivery core, whose `lap` cases stall a fan-out
behind a subscriber that has stopped reading while the publisher keeps the incoming ring turning
(three independent seeded changes released the ring bytes before the fan-out had used them), and whose
`srv` cases overlap several in-process publishes (a seeded change kept Server.Publish's subscriber
list on the shared Server)."""
from .props import PROPS, Run, eq_lines


def _with_conc(p, quick, thorough):
    o_or, o_nt = p.oracle, p.nontrivial
    p.cores = list(p.cores) + ['conc']
    p.runs = list(p.runs) + [Run('conc', quick=quick, thorough=thorough, seeds_thorough=2)]
    p.oracle = lambda op, a, b: eq_lines(op, a, b) if op.split()[0] == 'conc' else o_or(op, a, b)
    p.nontrivial = lambda op, out: (out != 'reset') if op.split()[0] == 'conc' else o_nt(op, out)
    p.assumptions = list(p.assumptions) + [
        "ring laps: `conc lap` cases (subscriber stalled until the publishers' writes block, packets of a read block "
        "or more through 32 KiB rings) sample the timing of the receiver refilling the incoming ring against a stalled "
        "fan-out; byte identity across ring reuse is a memory fact the sequential model does not carry",
        "overlapping in-process publishes: `conc srv` cases (2-8 goroutines calling Server.Publish at the same time, each on a "
        "topic of its own, one in-process callback per topic and one network subscriber on all of them) sample what one "
        "Server.Publish does to another that is still in its fan-out; the sequential broker runs reach the same overlap only "
        "through republishing callbacks (`srvsubrepub`: a nested Server.Publish from inside a callback)"]


for _pid in ('C01', 'C02', 'C08'):
    if _pid in PROPS:
        _with_conc(PROPS[_pid], 12, 80)


# C17's order clause for QoS 2 rests on the inbound exchange queue being a FIFO (C17_qos2_fifo cites
# the ack-queue refinement): like C02/C12/C20, C17's tie includes the ack-queue correspondence (a
# seeded change that mis-ordered the queue on growth was caught by C13 and C02 only)
def _with_ackq(p):
    from .props import ackq_oracle, ackq_nontrivial
    o_or, o_nt = p.oracle, p.nontrivial
    p.cores = list(p.cores) + ['ackq']
    p.runs = list(p.runs) + [Run('ackq', quick=40000, thorough=300000, seeds_thorough=4)]
    p.oracle = lambda op, a, b: ackq_oracle(op, a, b) if op.split()[0] == 'ackq' else o_or(op, a, b)
    p.nontrivial = lambda op, out: ackq_nontrivial(op, out) if op.split()[0] == 'ackq' else o_nt(op, out)


if 'C17' in PROPS:
    _with_ackq(PROPS['C17'])
