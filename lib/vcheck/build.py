"""rebuild everything from /repo's current working tree: facts, Lean project, harness"""
import os, re, glob, hashlib
from .env import *

FORBIDDEN = re.compile(r'\bsorry\b|\badmit\b|^\s*axiom\s|native_decide|bv_decide|implemented_by|\bunsafe\s|maxHeartbeats\s+0')
ALLOWED_AXIOMS = {'propext', 'Classical.choice', 'Quot.sound'}


EXIT_PARTIAL = 4   # extractor / translator: output complete, part of it is the baseline's (report next to the output)


def regen_facts():
    """regenerate Generated/Facts.lean.  returns (ok, log, failures): ok is False when no usable file was
    produced (every property is concerned); failures lists the sections whose text had to be taken from
    the baseline (scope.judge decides which properties they concern)"""
    from . import scope
    rc, out = run(['go', 'build', '-o', 'extract', '.'], cwd=EXTRACT, env=GOENV)
    if rc != 0:
        return False, 'extractor build failed:\n' + out, []
    rc, out = run([os.path.join(EXTRACT, 'extract'), REPO, FACTS])
    if rc == EXIT_PARTIAL:
        fails = scope.read_report(scope.FACTS_REPORT, 'facts')
        if fails:
            return True, out, fails
        return False, 'fact extraction reported failed sections but left no readable report:\n' + out, []
    if rc != 0:
        return False, 'fact extraction failed (source no longer has the shape the model was written against):\n' + out, []
    return True, '', []


def build_extractor_and_facts():
    """(ok, log) with ok = everything regenerated; callers that can scope a failure use regen_facts"""
    ok, log, fails = regen_facts()
    return ok and not fails, log


def regen_xlate():
    """regenerate Generated/Xlate.lean (Go subset -> Lean translation of the whitelisted functions).
    The translator writes the file only when its content changes (keeps lake's cache valid).
    returns (ok, log, failures) as regen_facts: a function that left the subset keeps its baseline
    translation and is listed in failures; when the translator produces nothing (no baseline text
    to fall back on, or it does not build) the old file is deleted, so nothing is ever proved about
    a stale translation."""
    from . import scope
    rc, out = run(['go', 'build', '-o', 'xlate', './cmd/xlate'], cwd=EXTRACT, env=GOENV)
    if rc == 0:
        rc, out = run([os.path.join(EXTRACT, 'xlate'), REPO, XLATE], env=GOENV)
        if rc == 0:
            return True, '', []
        if rc == EXIT_PARTIAL:
            fails = scope.read_report(scope.XLATE_REPORT, 'xlate')
            if fails:
                return True, out, fails
            out = 'translation reported failed functions but left no readable report:\n' + out
        else:
            out = ('translation failed (a whitelisted function left the supported Go subset, or was renamed/removed):\n'
                   + out)
    else:
        out = 'translator build failed:\n' + out
    try:
        os.remove(XLATE)
    except FileNotFoundError:
        pass
    return False, out, []


def build_xlate():
    ok, log, fails = regen_xlate()
    return ok and not fails, log


def lake_build(targets):
    """ONE lake invocation for all targets: the first failing module fails all of them"""
    rc, out = run(['lake', 'build'] + targets, cwd=LEAN, timeout=3600)
    return rc == 0, out


def lake_build_each(modules):
    """one lake invocation PER module, so that a module that does not build (a property's `…Source` module after a
    rewrite of a translated Go function) hides nothing about the others.  returns [(module, ok, log)]"""
    res = []
    for module in modules:
        ok, out = lake_build([module])
        res.append((module, ok, out))
    return res


def build_harness():
    # keep go.sum in step with the repository's
    try:
        with open(os.path.join(REPO, 'go.sum'), 'rb') as f:
            data = f.read()
        with open(os.path.join(HARNESS, 'go.sum'), 'wb') as f:
            f.write(data)
    except OSError:
        pass
    with open(os.path.join(HARNESS, 'go.mod'), 'w') as f:
        f.write('module verif/harness\n\ngo 1.21\n\nrequire github.com/mdzio/go-mqtt v0.0.0\n\n'
                'replace github.com/mdzio/go-mqtt => %s\n' % REPO)
    tmp = CORR + '.new.%d' % os.getpid()
    rc, out = run(['go', 'build', '-tags', 'verif', '-o', tmp, './cmd/corr'], cwd=HARNESS, env=GOENV, timeout=1200)
    if rc == 0:
        os.replace(tmp, CORR)     # atomic: a concurrently running check keeps its old binary
    else:
        try:
            os.remove(CORR)       # never leave a stale harness behind a failed build
        except FileNotFoundError:
            pass
    return rc == 0, out


def strip_comments(src):
    # block comments (nested not needed for our sources) and line comments
    src = re.sub(r'/-.*?-/', lambda m: '\n' * m.group(0).count('\n'), src, flags=re.S)
    src = re.sub(r'--.*', '', src)
    return src


def grep_forbidden():
    hits = []
    for path in glob.glob(os.path.join(LEAN, '**', '*.lean'), recursive=True):
        if '/.lake/' in path:
            continue
        with open(path, encoding='utf-8') as f:
            src = strip_comments(f.read())
        for i, line in enumerate(src.split('\n'), 1):
            if FORBIDDEN.search(line):
                hits.append('%s:%d: %s' % (os.path.relpath(path, LEAN), i, line.strip()))
    return hits


THEOREM_RE = re.compile(r'^\s*(?:private\s+|protected\s+)?theorem\s+([A-Za-z0-9_\.\']+)', re.M)
NAMESPACE_RE = re.compile(r'^\s*namespace\s+([A-Za-z0-9_\.]+)', re.M)


def _modules(modules):
    return [modules] if isinstance(modules, str) else list(modules)


def property_theorems(modules):
    """names of the theorems declared in the property module(s) (fully qualified; one module name or a list:
    the main module of a property and its `…Source` module, in that order)"""
    res = []
    for module in _modules(modules):
        path = os.path.join(LEAN, *module.split('.')) + '.lean'
        with open(path, encoding='utf-8') as f:
            src = strip_comments(f.read())
        ns = NAMESPACE_RE.search(src)
        prefix = (ns.group(1) + '.') if ns else ''
        res.extend(prefix + m.group(1) for m in THEOREM_RE.finditer(src))
    return res


def first_error(log):
    """' (first error at file:line)' for a lake log, or ''"""
    m = re.search(r'error: (\S+\.lean):(\d+)', log)
    return (' (first error at %s:%s)' % (m.group(1), m.group(2))) if m else ''


def audit_axioms(pid, modules):
    """`#print axioms` of every theorem of the given module(s) (those that built).  returns (ok, {theorem: [axioms]}, log)"""
    modules = _modules(modules)
    thms = property_theorems(modules)
    wd = workdir(pid)
    path = os.path.join(wd, 'Audit.lean')
    with open(path, 'w') as f:
        for module in modules:
            f.write('import %s\n' % module)
        for t in thms:
            f.write('#print axioms %s\n' % t)
    rc, out = run(['lake', 'env', 'lean', path], cwd=LEAN, timeout=1800)
    res = {}
    # output format: "'name' depends on axioms: [a, b]" / "'name' does not depend on any axioms"
    for m in re.finditer(r"'([^']+)' depends on axioms: \[([^\]]*)\]", out, flags=re.S):
        res[m.group(1)] = [a.strip() for a in m.group(2).replace('\n', ' ').split(',') if a.strip()]
    for m in re.finditer(r"'([^']+)' does not depend on any axioms", out):
        res[m.group(1)] = []
    ok = rc == 0
    bad = []
    for t in thms:
        if t not in res:
            ok = False
            bad.append('%s: no axiom report' % t)
        else:
            extra = [a for a in res[t] if a not in ALLOWED_AXIOMS]
            if extra:
                ok = False
                bad.append('%s: uses %s' % (t, extra))
    return ok, res, (out if not ok else '') + '\n'.join(bad)


def leanchecker(modules):
    """leanchecker on each module (its own invocation per module).  returns (ok, log of the failing ones)"""
    ok, logs = True, []
    for module in _modules(modules):
        rc, out = run(['lake', 'env', 'leanchecker', module], cwd=LEAN, timeout=3600)
        if rc != 0:
            ok = False
            logs.append('leanchecker %s:\n%s' % (module, out))
    return ok, '\n'.join(logs)
