import sys, os, json, time, argparse, hashlib, re, glob, traceback
from concurrent.futures import ThreadPoolExecutor
from .env import *
from . import build, corr, scope
from .props import PROPS
try:
    from manifest_table import CLAIMS as _CLAIMS
except Exception:
    _CLAIMS = {}

KNOWN = os.path.join(VERIF, 'known_findings.json')


from .props import eq_lines


def load_known(pid):
    try:
        with open(KNOWN) as f:
            data = json.load(f)
    except FileNotFoundError:
        return []
    return [e for e in data.get('findings', []) if e.get('property') == pid or pid in e.get('also', [])]


def write_replay(pid, name, obj):
    d = os.path.join(VERIF, 'replays')
    os.makedirs(d, exist_ok=True)
    path = os.path.join(d, '%s-%s.json' % (pid, name))
    with open(path, 'w') as f:
        json.dump(obj, f, indent=1)
    return path


def write_evidence(pid, ev):
    d = os.path.join(VERIF, 'evidence')
    os.makedirs(d, exist_ok=True)
    tmp = os.path.join(d, pid + '.json.tmp')
    with open(tmp, 'w') as f:
        json.dump(ev, f, indent=1)
    os.replace(tmp, os.path.join(d, pid + '.json'))


class Ctx:
    def __init__(self, prop, tier, seed):
        self.prop, self.tier, self.seed = prop, tier, seed
        self.violations = []      # (replay_path, suffix)
        self.known_lines = []
        self.notes = []
        self.evaluations = 0
        self.distinct = set()
        self.samples = []
        self.dist = {}
        self.traces = 0
        self.exhaustive_runs = 0


def excused(prop, known_open, ops_prefix, impl_line, model_line, spec_line=None):
    """a property deviation is a known finding iff it lies in a recorded class and the
    implementation still behaves exactly as the code-shaped model (same defect)"""
    if impl_line != model_line:
        return None
    for e in known_open:
        cls = prop.classes.get(e.get('class'))
        if not cls:
            continue
        try:
            hit = cls(ops_prefix, impl_line, spec_line)
        except TypeError:
            hit = cls(ops_prefix)
        if hit:
            return e
    return None


def analyse(ctx, label, ops, known_open):
    """run the three streams on ops and evaluate tie and oracle; returns number of violations added"""
    prop = ctx.prop
    st = corr.run_streams(ops)
    eps = corr.episodes(ops)
    nviol = 0
    hit_known = {}
    tie_broken_eps = []
    for (s, e) in eps:
        ep_bad = None
        ep_tie = None
        for i in range(s, e):
            if i >= len(st.impl):
                ep_bad = (i, 'crash')
                break
            ok_o = prop.oracle(ops[i], st.impl[i], st.spec[i])
            ok_t = prop.tie_eq(ops[i], st.impl[i], st.model[i])
            if not ok_o:
                k = excused(prop, known_open, ops[s:i + 1], st.impl[i], st.model[i], st.spec[i])
                if k is not None:
                    hit_known.setdefault(k['id'], 0)
                    hit_known[k['id']] += 1
                    continue
                ep_bad = (i, 'oracle')
                break
            if not ok_t and ep_tie is None:
                ep_tie = i
        if ep_bad is not None:
            i, kind = ep_bad
            nviol += 1
            if nviol <= 3:
                report_counterexample(ctx, label, ops[s:i + 1], kind, known_open,
                                      orig={'op': ops[i], 'impl': st.impl[i] if i < len(st.impl) else None,
                                            'spec': st.spec[i], 'model': st.model[i]})
            if kind == 'crash':
                break
        elif ep_tie is not None:
            tie_broken_eps.append((s, e, ep_tie))
    # statistics
    for i, op in enumerate(ops):
        w = op.split()
        if len(w) > 1 and w[1] == 'reset':
            continue
        ctx.evaluations += 1
        key = ' '.join(w[:3])
        ctx.dist[key] = ctx.dist.get(key, 0) + 1
        if i < len(st.model) and prop.nontrivial(op, st.model[i]):
            ctx.distinct.add(hashlib.blake2b((op + '\x00' + st.model[i]).encode(), digest_size=8).digest())
            if len(ctx.samples) < 6 and (len(ctx.samples) < 2 or i % 997 == 0):
                ctx.samples.append({'op': op[:300], 'impl': st.impl[i][:300] if i < len(st.impl) else None,
                                    'model': st.model[i][:300], 'spec': st.spec[i][:300]})
    ctx.traces += len(eps)
    for kid, cnt in hit_known.items():
        ctx.notes.append('%s: %d deviations inside known-finding class %s (impl = model)' % (label, cnt, kid))
    # a model/implementation difference on a line the oracle accepts, inside an episode that
    # already exercises a recorded defect (e.g. two filters aliased by the empty-level quirk make
    # the result depend on Go map order), is reported as a note, not as a broken tie
    kept = []
    for (s, e, i) in tie_broken_eps:
        hit = None
        for k in known_open:
            cls = prop.classes.get(k.get('class'))
            if not cls:
                continue
            try:
                h = cls(ops[s:i + 1], None, None)
            except TypeError:
                h = cls(ops[s:i + 1])
            if h:
                hit = k
                break
        if hit is not None:
            ctx.notes.append('%s: model/implementation difference (oracle satisfied) inside known-finding class %s at %r'
                             % (label, hit['id'], ops[i][:80]))
        elif getattr(prop, 'unspecified', None) and st.spec[i] == '*' and prop.unspecified(ops[s:i + 1]):
            ctx.notes.append('%s: model/implementation difference in territory the properties leave open at %r'
                             % (label, ops[i][:80]))
        else:
            kept.append((s, e, i))
    tie_broken_eps = kept
    if tie_broken_eps and nviol == 0:
        s, e, i = tie_broken_eps[0]
        if prop.spec_total:
            ctx.notes.append('%s: implementation differs from the code-shaped model on %d episodes but equals the '
                             'specification model everywhere; tie re-pointed to the specification model (first: %r impl=%r model=%r)'
                             % (label, len(tie_broken_eps), ops[i], st.impl[i], st.model[i]))
        else:
            def fails(cand):
                st2 = corr.run_streams(cand)
                return corr.first_bad(st2, prop.tie_eq, lambda *a: True) is not None
            corr.REPLAY_OP_TIMEOUT['v'] = '90s'
            try:
                small = corr.shrink(ops[s:i + 1], fails)
                st2 = corr.run_streams(small)
            finally:
                corr.REPLAY_OP_TIMEOUT['v'] = None
            path = write_replay(prop.pid, 'tie-%s' % label.replace('/', '_'), {
                'property': prop.pid, 'kind': 'broken-obligation', 'obligation': 'correspondence impl = model (%s)' % label,
                'seed': ctx.seed, 'ops': small, 'impl': st2.impl, 'model': st2.model, 'spec': st2.spec,
                'note': 'model and implementation differ; the oracle found no input on which the property fails'})
            ctx.violations.append((path, ' no-failing-input-found'))
            nviol += 1
    return nviol


def report_counterexample(ctx, label, ep_ops, kind, known_open, orig=None):
    prop = ctx.prop

    def fails(cand):
        st = corr.run_streams(cand)
        for i in range(len(cand)):
            if i >= len(st.impl):
                return True
            if not prop.oracle(cand[i], st.impl[i], st.spec[i]):
                if excused(prop, known_open, cand[:i + 1], st.impl[i], st.model[i], st.spec[i]) is None:
                    return True
        return False
    # a failure that does not reproduce on its own episode is reported as it was observed
    corr.REPLAY_OP_TIMEOUT['v'] = '90s'
    try:
        reproducible = fails(ep_ops)
        small = corr.shrink(ep_ops, fails) if (reproducible and len(ep_ops) > 2) else ep_ops
        st = corr.run_streams(small)
    finally:
        corr.REPLAY_OP_TIMEOUT['v'] = None
    name = hashlib.blake2b('\n'.join(small).encode(), digest_size=5).hexdigest()
    if any(name in p for p, _ in ctx.violations):
        return
    path = write_replay(prop.pid, name, {
        'property': prop.pid, 'kind': 'counterexample', 'how': kind, 'run': label, 'seed': ctx.seed,
        'ops': small, 'expected_spec': st.spec, 'actual_impl': st.impl, 'model': st.model, 'crash': st.crashed,
        'reproducible': reproducible, 'first_observed': orig})
    ctx.violations.append((path, ''))


def do_replay(prop, path):
    if getattr(prop, 'replay', None):        # properties without op lines bring their own replay (C18)
        return prop.replay(prop, path)
    with open(path) as f:
        rp = json.load(f)
    with build_lock():
        okf, _, ffail = build.regen_facts()
        okx, _, xfail = build.regen_xlate()
        okl, leanlog = build.lake_build([prop.module, 'mqttdrv'])
        oks = all(ok for _, ok, _ in build.lake_build_each(prop.extra_modules))   # the source-tie module(s), separately
        okh, hlog = build.build_harness()
    scoped, _ = scope.judge(prop.modules, ffail + xfail)   # failed sections / functions this property is built from
    if rp.get('kind') == 'broken-obligation' and 'ops' not in rp:
        still = not (okf and okx and okl and oks and okh) or bool(scoped)
        print('obligation %s: %s' % (rp.get('obligation'), 'still broken' if still else 'checks again'))
        if still:
            print('VIOLATION property=%s replay=%s no-failing-input-found' % (prop.pid, path))
            return 1
        return 0
    if not okh or not os.path.exists(DRV):
        print('cannot replay: harness or driver does not build')
        print('VIOLATION property=%s replay=%s no-failing-input-found' % (prop.pid, path))
        return 1
    ops = rp['ops']
    st = corr.run_streams(ops)
    known_open = [e for e in load_known(prop.pid) if e.get('status') == 'open']
    bad = False
    for i, op in enumerate(ops):
        impl = st.impl[i] if i < len(st.impl) else '<crashed>'
        o = i < len(st.impl) and prop.oracle(op, impl, st.spec[i])
        t = i < len(st.impl) and prop.tie_eq(op, impl, st.model[i])
        flag = ''
        if not o:
            flag = '   <-- property oracle fails'
            if i < len(st.impl) and excused(prop, known_open, ops[:i + 1], impl, st.model[i], st.spec[i]) is not None:
                flag = '   (known finding)'
            else:
                bad = True
        elif not t:
            flag = '   <-- differs from code-shaped model'
            if rp.get('kind') == 'broken-obligation':
                bad = True
        print('%-60s impl: %s\n%-60s spec: %s%s' % (op[:60], impl, '', st.spec[i], flag))
    if bad:
        suffix = ' no-failing-input-found' if rp.get('kind') == 'broken-obligation' else ''
        print('VIOLATION property=%s replay=%s%s' % (prop.pid, path, suffix))
        return 1
    print('replay does not reproduce a violation')
    return 0


def main(argv):
    ap = argparse.ArgumentParser(prog='check')
    ap.add_argument('pid')
    ap.add_argument('--tier', default=os.environ.get('VERIF_TIER') or 'quick', choices=['quick', 'thorough'])
    ap.add_argument('--seed', type=int, default=int(os.environ.get('VERIF_SEED') or 1))
    ap.add_argument('--replay')
    a = ap.parse_args(argv)
    if a.pid not in PROPS:
        print('unknown property', a.pid)
        return 2
    prop = PROPS[a.pid]
    if a.replay:
        return do_replay(prop, a.replay)
    t0 = time.time()
    for old in glob.glob(os.path.join(VERIF, 'replays', prop.pid + '-*.json')):
        os.remove(old)
    ctx = Ctx(prop, a.tier, a.seed)
    obligations = []
    broken = []           # (obligation name, detail)

    # 1-3: rebuild from the current tree
    with build_lock():
        okf, flog, ffail = build.regen_facts()
        if not okf:
            broken.append(('regenerated facts', flog))
        okx, xlog, xfail = build.regen_xlate()
        if not okx:
            broken.append(('regenerated translation of the whitelisted Go functions (xlate)', xlog[-6000:]))
        # a section / function that could not be regenerated (its baseline text is in the generated
        # file) is an obligation of this property only if the property is built from it
        scoped, scope_notes = scope.judge(prop.modules, ffail + xfail)
        broken.extend(scoped)
        ctx.notes.extend(scope_notes)
        okl, leanlog = build.lake_build([prop.module, 'mqttdrv'])
        if not okl:
            broken.append(('lake build %s%s' % (prop.module, build.first_error(leanlog)), leanlog[-6000:]))
            okd, _ = build.lake_build(['mqttdrv'])
        else:
            okd = True
        built = [prop.module] if okl else []     # the modules whose theorems the kernel has accepted
        # the source-tie module (Properties/CxxSource.lean) is built by its own lake invocation: when a translated Go
        # function was rewritten it is the only module that stops building, and that must stop neither the audit of
        # the main module nor the correspondence run (which is then the search for a failing input)
        for mod, okm, mlog in build.lake_build_each(prop.extra_modules):
            if okm:
                built.append(mod)
            else:
                broken.append(('lake build %s%s' % (mod, build.first_error(mlog)), mlog[-6000:]))
        okh, hlog = build.build_harness()
        if not okh:
            broken.append(('harness build (go build -tags verif)', hlog[-6000:]))
        axioms = {}
        if built:
            oka, axioms, alog = build.audit_axioms(prop.pid, built)
            if not oka:
                broken.append(('axiom audit', alog[-4000:]))
            hits = build.grep_forbidden()
            if hits:
                broken.append(('forbidden construct in Lean sources', '\n'.join(hits)))
            if a.tier == 'thorough':
                for mod in built:
                    okc, clog = build.leanchecker(mod)
                    if not okc:
                        broken.append(('leanchecker %s' % mod, clog[-4000:]))
        # the streams of this run use private copies of the two executables, taken while the build lock is
        # still held: another check running in the same tree rebuilds (and for a moment removes) the shared ones
        try:
            import tempfile, shutil, atexit
            rundir = os.path.join(VERIF, '.run')
            os.makedirs(rundir, exist_ok=True)
            snap = tempfile.mkdtemp(prefix='check-%s-' % prop.pid, dir=rundir)
            atexit.register(shutil.rmtree, snap, True)
            for attr, path in (('DRV', DRV), ('CORR', CORR)):
                if os.path.exists(path):
                    dst = os.path.join(snap, os.path.basename(path))
                    shutil.copy2(path, dst)
                    setattr(corr, attr, dst)
        except OSError as ex:
            ctx.notes.append('private copies of the executables not made (%s): using the shared ones' % ex)
    theorems = build.property_theorems(prop.modules)     # main module first, then the source-tie module's
    n_obl = len(theorems)
    n_dis = len([t for t in theorems if t in axioms]) if built else 0

    if a.tier == 'quick':
        corr.SHRINK_SECONDS.update(total=240.0, each=90.0, spent=0.0)
        corr.IMPL_TIMEOUT['s'] = 900
    else:
        corr.SHRINK_SECONDS.update(total=1200.0, each=300.0, spent=0.0)
        corr.IMPL_TIMEOUT['s'] = 3600
    known = load_known(prop.pid)
    known_open = [e for e in known if e.get('status') == 'open']

    # 4: correspondence (also the search when an obligation broke)
    can_run = okh and okd and os.path.exists(corr.DRV) and os.path.exists(corr.CORR)
    if can_run:
        try:
            # corpus and recorded witnesses first
            for core in prop.cores:
                for path in sorted(glob.glob(os.path.join(VERIF, 'corpus', core, '*.ops'))):
                    with open(path) as f:
                        ops = [l.rstrip('\n') for l in f if l.strip() and not l.startswith('#')]
                    analyse(ctx, 'corpus/' + os.path.basename(path), ops, known_open)
            for e in known:
                w = e.get('witness', {})
                if 'ops' not in w:
                    continue
                st = corr.run_streams(w['ops'])
                # a finding shared with other properties keeps ONE witness, on the core that shows it
                # most directly; on a core this property does not own, the lines are judged by an owner's oracle
                def worc(op, x, y):
                    core = op.split()[0]
                    if core in prop.cores:
                        return prop.oracle(op, x, y)
                    for q in PROPS.values():   # the oracle of a property that owns that core
                        if core in q.cores:
                            return q.oracle(op, x, y)
                    return eq_lines(op, x, y)
                dev = [i for i in range(len(w['ops'])) if i >= len(st.impl) or
                       not worc(w['ops'][i], st.impl[i], st.spec[i])]
                if e.get('status') == 'open':
                    if dev and st.impl == w.get('actual_impl', st.impl):
                        ctx.known_lines.append('KNOWN-FINDING: property=%s %s' % (prop.pid, e.get('what')))
                    elif dev:
                        # same input, different wrong behaviour: not the recorded finding
                        report_counterexample(ctx, 'known/' + e['id'], w['ops'], 'oracle', [])
                    else:
                        ctx.notes.append('known finding %s no longer reproduces on this tree' % e['id'])
                else:  # fixed: must stay fixed
                    if dev:
                        report_counterexample(ctx, 'fixed/' + e['id'], w['ops'], 'oracle', [])
            jobs = []
            for r in prop.runs:
                if r.tier_only and r.tier_only != a.tier:
                    continue
                n = r.quick if a.tier == 'quick' else r.thorough
                seeds = [a.seed] if a.tier == 'quick' else [a.seed + k for k in range(r.seeds_thorough)]
                for sd in seeds:
                    jobs.append((r, sd, n))

            def job(j):
                r, sd, n = j
                ops = corr.gen_ops(r.gen, sd, n, a.tier, r.extra)
                return r, sd, ops
            with ThreadPoolExecutor(max_workers=max(1, NCPU // 2)) as ex:
                gens = list(ex.map(job, jobs))
            # analysis is sequential in bookkeeping but the three streams run as separate processes
            with ThreadPoolExecutor(max_workers=max(1, NCPU // 3)) as ex:
                list(ex.map(lambda g: analyse(ctx, '%s/seed%d' % (g[0].gen, g[1]), g[2], known_open), gens))
            ctx.exhaustive_runs = len([g for g in gens if g[0].exhaustive])
            for chk in prop.extra_checks:
                chk(ctx, a)
        except Exception as ex:
            broken.append(('correspondence run', traceback.format_exc()[-4000:]))
    else:
        ctx.notes.append('correspondence not run: harness or driver unavailable')

    # 5: broken obligations without a counterexample
    if broken and not ctx.violations:
        for name, detail in broken:
            path = write_replay(prop.pid, 'obligation-' + re.sub(r'[^A-Za-z0-9]+', '_', name)[:60], {
                'property': prop.pid, 'kind': 'broken-obligation', 'obligation': name, 'detail': detail,
                'note': 'searched %d cases for a failing input, found none' % ctx.evaluations})
            ctx.violations.append((path, ' no-failing-input-found'))

    wall = time.time() - t0
    ev = {
        'property_id': prop.pid, 'tier': a.tier, 'seed': a.seed,
        'level': (_CLAIMS.get(prop.pid) or {}).get('category', prop.level),
        'coverage': {
            'obligations': max(n_obl, 1), 'discharged': n_dis if not broken else min(n_dis, max(n_obl - len(broken), 0)),
            'checker_cmd': 'cd /verif/lean && %s && lake env lean <#print axioms of every theorem in the module%s>%s'
                           % (' && '.join('lake build ' + m for m in prop.modules), 's' if prop.extra_modules else '',
                              ''.join(' && lake env leanchecker ' + m for m in prop.modules) if a.tier == 'thorough' else ''),
            'trusted_base': prop.trusted + ['axioms used: ' + ', '.join(sorted({x for v in axioms.values() for x in v}) or ['none'])],
            'theorems': [{'name': t, 'axioms': axioms.get(t)} for t in theorems],
            'evaluations': ctx.evaluations, 'distinct_nontrivial': len(ctx.distinct),
            'rule': 'correspondence: op lines from seeded generators (and exhaustive small-scope sweeps where listed) run on the '
                    'real code, the code-shaped Lean model and the Lean specification; a case is one op line; distinct = distinct '
                    '(op, model output) pairs; non-trivial = output is not the trivial one for that core',
            'samples': ctx.samples or [{'note': 'no correspondence case ran'}],
            'traces_validated_against_impl': ctx.traces,
            'op_distribution': dict(sorted(ctx.dist.items(), key=lambda kv: -kv[1])[:40]),
            'exhaustive': False, 'exhaustive_sweeps': ctx.exhaustive_runs,
            'notes': ctx.notes, 'broken_obligations': [b[0] for b in broken],
            'known_findings': ctx.known_lines,
        },
        'assumptions': prop.assumptions,
        'wall_s': round(wall, 2), 'violations': len(ctx.violations),
    }
    ev['coverage'].update(getattr(ctx, 'coverage_extra', None) or getattr(prop, 'coverage_extra', None) or {})
    write_evidence(prop.pid, ev)

    for l in ctx.known_lines:
        print(l)
    for n in ctx.notes:
        print('note:', n)
    print('%s tier=%s seed=%d theorems=%d/%d cases=%d distinct-nontrivial=%d wall=%.1fs'
          % (prop.pid, a.tier, a.seed, n_dis, n_obl, ctx.evaluations, len(ctx.distinct), wall))
    if ctx.violations:
        for path, suffix in ctx.violations[:5]:
            print('VIOLATION property=%s replay=%s%s' % (prop.pid, path, suffix))
        return 1
    return 0
