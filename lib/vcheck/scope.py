"""which properties a failure of the fact extractor / the translator concerns

The extractor works section by section and the translator function by function; a part that
meets source it does not recognise is replaced by its committed baseline text and listed in
Generated/facts_report.json resp. xlate_report.json with the Lean names it defines
(extract/sections.go, extract/cmd/xlate/merge.go).  Such a failure is a broken obligation of a
property iff the property is built from one of those names:

  some Lean file in the transitive import closure of the property's modules - the main module
  Mqtt.Properties.Cxx and, where it exists, the source-tie module Mqtt.Properties.CxxSource,
  which nothing else imports (import lines under lean/Mqtt; the generated files themselves
  excluded) - mentions one of the names as a
  whole word - `Mqtt.Generated.x`, `Generated.x`, or bare `x` after an `open` (for translated
  functions the name relative to Mqtt.Generated.Xlate, e.g. `Service.service.peekMessageSize`).

A mention counts only in a file that itself imports (transitively) the generated module the name
lives in - elsewhere the same word is another definition (the models have their own `checkTopic`).
That over-approximates "a theorem of the property depends on it" (a comment-free mention in any
such file counts), never under-approximates it: Lean cannot use a name without importing and
writing it.
"""
import os, re, json
from .env import *
from . import build

GENERATED = ('Mqtt.Generated.Facts', 'Mqtt.Generated.Xlate')
FACTS_REPORT = os.path.join(os.path.dirname(FACTS), 'facts_report.json')
XLATE_REPORT = os.path.join(os.path.dirname(XLATE), 'xlate_report.json')

_IMPORT = re.compile(r'^[ \t]*(?:(?:public|private|meta)[ \t]+)*import[ \t]+(?:all[ \t]+)?([^\n]*)', re.M)
_WORD = r"A-Za-z0-9_'"

_imports = {}     # module -> [imported modules under Mqtt with a source file]
_source = {}      # module -> comment-free source
_closures = {}    # module -> [modules]


def module_path(mod):
    return os.path.join(LEAN, *mod.split('.')) + '.lean'


def _load(mod):
    if mod in _imports:
        return
    try:
        with open(module_path(mod), encoding='utf-8') as f:
            src = build.strip_comments(f.read())
    except OSError:
        src = ''
    _source[mod] = src
    deps = []
    for m in _IMPORT.finditer(src):
        for name in m.group(1).split():
            if name.startswith('Mqtt.') and os.path.exists(module_path(name)) and name not in deps:
                deps.append(name)
    _imports[mod] = deps


def import_closure(module):
    """modules under lean/Mqtt the module is built from (itself included), in discovery order"""
    if module in _closures:
        return _closures[module]
    seen, todo = [], [module]
    while todo:
        m = todo.pop(0)
        if m in seen:
            continue
        seen.append(m)
        _load(m)
        todo.extend(_imports[m])
    _closures[module] = seen
    return seen


def closure_of(modules):
    """import closure of a property: of its main module and of its source-tie module(s) (one module name or a list),
    in discovery order, each module once.  The theorems tying the models to the regenerated translation live in
    Properties/CxxSource.lean, which only Cxx's check builds: a function that could not be translated therefore
    concerns Cxx through that module and no property that merely imports Properties/Cxx.lean."""
    seen = []
    for module in ([modules] if isinstance(modules, str) else modules):
        for m in import_closure(module):
            if m not in seen:
                seen.append(m)
    return seen


def relative_name(lean_def):
    for p in ('Mqtt.Generated.Xlate.', 'Mqtt.Generated.'):
        if lean_def.startswith(p):
            return lean_def[len(p):]
    return lean_def


def first_mention(modules, lean_defs):
    """(module, name) of the first mention of one of the names in the property's import closure (main module and
    source-tie module, `closure_of`), or None"""
    for home in ('Mqtt.Generated.Xlate', 'Mqtt.Generated.Facts'):   # Xlate first: its prefix contains the other
        mine = [d for d in lean_defs if d.startswith(home[:-len('.Facts')] + '.' if home.endswith('.Facts') else home + '.')]
        lean_defs = [d for d in lean_defs if d not in mine]
        names = sorted({relative_name(d) for d in mine}, key=lambda s: (-len(s), s))
        if not names:
            continue
        rx = re.compile(r"(?<![%s])(?:%s)(?![%s])" % (_WORD, '|'.join(re.escape(n) for n in names), _WORD))
        for m in closure_of(modules):
            if m in GENERATED or home not in import_closure(m):
                continue
            hit = rx.search(_source[m])
            if hit:
                return m, hit.group(0)
    return None


def read_report(path, kind):
    """failures of one tool's last run: [{'kind','name','message','lean_defs','replaced'}]"""
    try:
        with open(path) as f:
            rep = json.load(f)
    except (OSError, ValueError):
        return None
    res = []
    for e in rep.get('failed', []):
        name, msg = e.get('section') or e.get('function') or '?', e.get('message', '')
        if msg.startswith(name + ': '):      # the translator's messages begin with the function they are about
            msg = msg[len(name) + 2:]
        res.append({'kind': kind, 'name': name, 'message': msg,
                    'lean_defs': e.get('lean_defs', []), 'replaced': e.get('replaced', [])})
    return res


def obligation_name(fl):
    if fl['kind'] == 'facts':
        return 'regenerated facts: section %s (%s)' % (fl['name'], fl['message'])
    return 'regenerated translation: %s (%s)' % (fl['name'], fl['message'])


def judge(modules, failures):
    """splits the failures into obligations of the property (modules: its main module, or the list main + source-tie
    modules = Prop.modules) and notes.
    returns (broken, notes): broken = [(obligation name, detail)], notes = [text] (one per failure)"""
    broken, notes = [], []
    for fl in failures:
        what = ('section %s of the fact extractor' % fl['name']) if fl['kind'] == 'facts' else \
               ('function %s of the translator whitelist' % fl['name'])
        names = ', '.join(relative_name(d) for d in fl['lean_defs'][:6]) + (', …' if len(fl['lean_defs']) > 6 else '')
        hit = first_mention(modules, fl['lean_defs'])
        if hit:
            where = '%s mentions %s' % (hit[0], hit[1])
            broken.append((obligation_name(fl),
                           '%s could not be regenerated from this tree: %s\nThe baseline text (the unchanged repository) was used for: %s\n'
                           'This property is built from it: %s.' % (what, fl['message'], ', '.join(fl['lean_defs']), where)))
            notes.append('%s could not be regenerated (%s); baseline text used for %s; this property is built from it (%s): '
                         'broken obligation' % (what, fl['message'], names, where))
        else:
            notes.append('%s could not be regenerated (%s); baseline text used for %s; no Lean file this property is built from '
                         'mentions any of these names: not an obligation of this property' % (what, fl['message'], names))
    return broken, notes
