"""C17 — whole packets, per-publisher order: concurrent deliveries on the real broker"""
from .props import Prop, Run, register, COMMON_TRUSTED, eq_lines, by_core
from . import props_broker as _pb

register(Prop(
    'C17', 'Mqtt.Properties.C17', ['conc', 'broker'],
    runs=[Run('conc', quick=30, thorough=300, seeds_thorough=4),
          Run('broker-qos', quick=15000, thorough=60000, seeds_thorough=4)],
    oracle=by_core({'conc': eq_lines, 'broker': _pb.broker_oracle}),
    nontrivial=by_core({'conc': lambda op, out: out != 'reset', 'broker': _pb.broker_nontrivial}),
    spec_total=False,
    classes={'empty_level': _pb.has_empty_level},
    assumptions=[
        "concurrent runs are unserialised real executions (2-8 publishers, payloads up to 7000 bytes through a 16 KiB outgoing ring so packets wrap mid-packet; `conc srv`: 2-8 goroutines calling Server.Publish at the same time); they sample interleavings, the theorem quantifies over all of them",
        "the wrap path is modelled over a finite ring of 2^k cells with one consumer (Model/WriteWrap.lean); a whole-packet copy is one model step and WriteWait is simply disabled while the ring is full - the ring's condition variables, gate cache and Close are Core D (C14/C15)",
        "the statement-level shape of writeMessage (growth test, Encode(svc.outtmp[0:]), Write(svc.outtmp[0:n]), Encode(buf[0:]), WriteCommit(n), Len/Lock/defer Unlock/WriteWait order) is regenerated on every check and equated with the model's step table",
        "that no write to a connection bypasses wmu is a lock-discipline fact (regenerated; C18)",
    ] + _pb.BROKER_ASSUMPTIONS,
    trusted=COMMON_TRUSTED))
