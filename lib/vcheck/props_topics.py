"""Core B — topic store (C06)"""
import binascii
from .props import Prop, Run, register, COMMON_TRUSTED, XLATE_TRUSTED, eq_lines


def _topic_arg(op):
    w = op.split()
    if len(w) < 3 or w[1] == 'reset':
        return None
    if w[2] == '-':
        return b''
    try:
        return binascii.unhexlify(w[2])
    except Exception:
        return None


def has_empty_level(ops_prefix):
    for op in ops_prefix:
        t = _topic_arg(op)
        if t is not None and (t.startswith(b'/') or t.endswith(b'/') or b'//' in t):
            return True
    return False


def topics_oracle(op, impl, spec):
    return spec == '*' or impl == spec


def topics_nontrivial(op, out):
    return out not in ('reset', 'subs []', 'rets []', 'err')


register(Prop(
    'C06', 'Mqtt.Properties.C06', ['topics'],
    runs=[Run('topics', quick=60000, thorough=400000, seeds_thorough=8),
          Run('topics-sweep', quick=3, thorough=4, seeds_thorough=1, exhaustive=True)],
    oracle=topics_oracle, nontrivial=topics_nontrivial, spec_total=False,
    classes={'empty_level': has_empty_level},
    assumptions=[
        "Go maps modelled as association lists with unique keys; results of map iteration compared as sorted lists",
        "subscribers are compared by pointer identity (the kinds the library uses); the reflect-based `equal` for other kinds is not modelled",
        "retained messages modelled by (topic, qos, payload); byte-level copy (Encode/Decode into the node's buffer) is C03's codec",
    ],
    trusted=COMMON_TRUSTED + [XLATE_TRUSTED]))
