"""C19 — keep-alive"""
from .props import Prop, Run, register, COMMON_TRUSTED


def ka_oracle(op, impl, spec):
    if spec == '*' or impl == spec:
        return True
    # the specification line has no window field
    return impl.rsplit(' window=', 1)[0] == spec


def ka_nontrivial(op, out):
    return out not in ('reset', 'started')


def ka_recv_parked(ops_prefix, impl=None, spec=None):
    """known-finding class F8: a client that stops reading AND keeps sending until its writes block (`deafflood`):
    both rings of its connection fill up completely, the receiver waits because the incoming ring is full, no socket
    read is pending and so no read deadline is armed: keep-alive never fires"""
    w = ops_prefix[-1].split()
    if len(w) != 3 or w[0] != 'ka' or w[1] != 'wait':
        return False
    for l in ops_prefix:
        v = l.split()
        if len(v) == 7 and v[0] == 'ka' and v[1] == 'start' and v[2] == w[2]:
            return v[6] == 'deafflood'
    return False


register(Prop(
    'C19', 'Mqtt.Properties.C19', ['ka'],
    runs=[Run('ka', quick=11, thorough=29, seeds_thorough=3)],
    oracle=ka_oracle, nontrivial=ka_nontrivial, spec_total=False,
    classes={'recv_parked': ka_recv_parked},
    assumptions=[
        "real time, timers, net.Conn read deadlines and scheduler latency are outside the model: the arithmetic and the receiver's timed state machine are proved, the clock is trusted",
        "timed scenarios use K in {1,2} s with margins of -200 ms / +1500 ms around the computed deadline",
        "the receiver re-issues a read as long as the incoming ring is not completely full (8f682d1); the timed scenarios never fill "
        "the incoming ring, the deaf ones (a subject that has stopped reading) fill the outgoing one (deafsub, deafecho) or both "
        "(deafflood: incoming ring completely full, no read pending, no deadline armed - open finding F8)",
        "the deaf scenarios' model stream is computed on the connection life-cycle model of C16 (round-robin to the buffer "
        "condition, the read deadline fires if a read is pending, round-robin again); C19_timeout_tears_down is a theorem about "
        "that model under weak fairness, socket semantics are its parameters (a Close makes a blocked Write fail)",
    ],
    trusted=COMMON_TRUSTED + ["regenerated facts: deadline expression keepAlive + keepAlive/N, minKeepAlive, per-read re-arming, keep-alive 0 => minKeepAlive"]))
