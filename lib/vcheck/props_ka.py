"""C19 — keep-alive"""
from .props import Prop, Run, register, COMMON_TRUSTED


def ka_oracle(op, impl, spec):
    if spec == '*' or impl == spec:
        return True
    # the specification line has no window field
    return impl.rsplit(' window=', 1)[0] == spec


def ka_nontrivial(op, out):
    return out not in ('reset', 'started')


register(Prop(
    'C19', 'Mqtt.Properties.C19', ['ka'],
    runs=[Run('ka', quick=9, thorough=27, seeds_thorough=3)],
    oracle=ka_oracle, nontrivial=ka_nontrivial, spec_total=False,
    assumptions=[
        "real time, timers, net.Conn read deadlines and scheduler latency are outside the model: the arithmetic and the receiver's timed state machine are proved, the clock is trusted",
        "timed scenarios use K in {1,2} s with margins of -200 ms / +1500 ms around the computed deadline",
        "the receiver re-issues a read as soon as one read block of ring space is free (ring never full in these scenarios)",
    ],
    trusted=COMMON_TRUSTED + ["regenerated facts: deadline expression keepAlive + keepAlive/N, minKeepAlive, per-read re-arming, keep-alive 0 => minKeepAlive"]))
