"""per-property configuration: Lean modules, correspondence runs, oracles, non-triviality rules"""
import re


class Run:
    def __init__(self, gen, quick, thorough, seeds_thorough=4, extra=(), tier_only=None, exhaustive=False):
        self.gen, self.quick, self.thorough = gen, quick, thorough
        self.seeds_thorough, self.extra, self.tier_only, self.exhaustive = seeds_thorough, list(extra), tier_only, exhaustive


# ---- per-core comparison rules --------------------------------------------

def eq_lines(op, a, b):
    return a == b


_ackq_suffix = re.compile(r' n=\d+ cap=\d+$')


def ackq_oracle(op, impl, spec):
    # the FIFO specification has no ring: compare everything but the size report
    return _ackq_suffix.sub('', impl) == spec


def ackq_nontrivial(op, model_out):
    return not (model_out.startswith('rel [] ') or model_out == 'reset')


def by_core(table, default=None):
    """dispatch a per-line rule on the core name (first word of the op line)"""
    def f(op, a, b=None):
        g = table.get(op.split()[0], default)
        if g is None:
            return True
        return g(op, a, b) if b is not None else g(op, a)
    return f


def source_modules(module):
    """the source-tie module of a property module, if there is one: lean/Mqtt/Properties/<pid>Source.lean holds the
    theorems that tie the models to the regenerated translation Generated/Xlate.lean (BUILDING.md, "Source-tie
    modules"); it belongs to the property's check and to nothing else"""
    import os
    from .env import LEAN
    m = module + 'Source'
    return [m] if os.path.exists(os.path.join(LEAN, *m.split('.')) + '.lean') else []


class Prop:
    def __init__(self, pid, module, cores, runs, tie_eq=eq_lines, oracle=eq_lines, nontrivial=None,
                 spec_total=True, level='proof', assumptions=(), trusted=(), classes=None, extra_checks=(), unspecified=None,
                 extra_modules=None):
        self.pid, self.module, self.cores, self.runs = pid, module, cores, runs
        # further Lean modules whose theorems are obligations of this property: built (each by its own lake
        # invocation), listed, axiom-audited and leanchecked with the main module; a failure there is a broken
        # obligation of this property only and hides nothing about the main module
        self.extra_modules = list(extra_modules) if extra_modules is not None else source_modules(module)
        self.tie_eq, self.oracle, self.nontrivial = tie_eq, oracle, nontrivial or (lambda op, out: True)
        self.spec_total, self.level = spec_total, level
        self.assumptions, self.trusted = list(assumptions), list(trusted)
        self.classes = classes or {}       # known-finding class name -> predicate(op line) -> bool
        self.extra_checks = list(extra_checks)
        self.unspecified = unspecified   # predicate(prefix): episode is in territory the properties leave open

    @property
    def modules(self):
        """every Lean module whose theorems are obligations of this property (main module first)"""
        return [self.module] + self.extra_modules


COMMON_TRUSTED = [
    "Lean 4.33.0 kernel (lake build); no sorry/admit/native_decide/bv_decide/own axioms (grep + #print axioms on every property theorem)",
    "model-to-code tie: Go harness (corr), line protocol, Lean driver parsing glue, fact extractor (go/ast)",
]

XLATE_TRUSTED = ("Go-subset -> Lean translator extract/cmd/xlate (NOTES-xlate.md): its reading of the whitelisted Go functions, "
                 "regenerated into Generated/Xlate.lean on every run and proved equal to the model functions (theorems *_is_source)")

PROPS = {}


def register(p):
    PROPS[p.pid] = p


register(Prop(
    'C13', 'Mqtt.Properties.C13', ['ackq'],
    runs=[Run('ackq', quick=60000, thorough=400000, seeds_thorough=8),
          Run('ackq-sweep', quick=4, thorough=6, seeds_thorough=1, exhaustive=True),
          Run('ackq-sweep-ping', quick=5, thorough=7, seeds_thorough=1, exhaustive=True)],
    oracle=ackq_oracle, nontrivial=ackq_nontrivial,
    assumptions=[
        "Go semantics assumed by the model: slices/copy/append, map as finite function, sync.Mutex makes each exported method atomic",
        "int64 indices modelled as naturals (2^63 in-flight entries unreachable); roundUpPowerOfTwo64 modelled on BitVec 64",
        "message.Encode of the registered request/ack is an input of the model (bytes on the op line); the codec itself is C03",
    ],
    trusted=COMMON_TRUSTED + [
        "regenerated facts: defaultQueueSize, Ack's accepted types, Acked's release set (sessions/*.go)",
        XLATE_TRUSTED,
    ]))


# per-core registrations live in props_<core>.py next to this file
import importlib, pkgutil, os as _os
for _m in sorted(pkgutil.iter_modules([_os.path.dirname(__file__)]), key=lambda m: m.name):
    if _m.name.startswith('props_'):
        importlib.import_module('vcheck.' + _m.name)
