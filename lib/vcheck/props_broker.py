"""Core E — broker (C01, C02, C07, C08, C09, C10, C11): oracle on event lines"""
import re, binascii, itertools
from collections import Counter
from .props import Prop, Run, register, COMMON_TRUSTED, XLATE_TRUSTED, eq_lines

GROUP = re.compile(r'(cb?\d+)\[([^\]]*)\]')


def parse_line(line):
    groups = {m.group(1): [x for x in m.group(2).split(';') if x] for m in GROUP.finditer(line)}
    return groups, ('apierr' in line.split())


def wild(pub_item):
    # "PUB d q r topic id payload" -> (canonical with d and id wildcarded, ok_id)
    w = pub_item.split()
    q, pid = int(w[2]), w[5]
    ok = (pid == '0') if q == 0 else (pid != '0')
    return 'PUB * %s %s %s * %s' % (w[2], w[3], w[4], w[6]), ok


def copies_of(item):
    inner = item[item.index('{') + 1:item.rindex('}')]
    return [x for x in inner.split(',') if x]


def assign(delivers, remaining):
    """each DELIVER item must receive a non-empty sub-multiset of its copies; nothing may be left over.

    Feasibility of  x_i <= C_i (as multisets), x_i non-empty, sum_i x_i = R :
      (1) for every string k, R[k] <= sum_i C_i[k]   (what arrived fits into what was allowed), and
      (2) the items can each be given ONE arrived copy of a string they allow, no string used more
          often than it arrived (a bipartite matching of items into the R[k] slots of the strings);
    once every item holds its mandatory copy, the rest of R fits by (1).  (2) is decided with
    augmenting paths; the earlier exhaustive search was exponential in the number of items of a pool."""
    rem = {k: v for k, v in remaining.items() if v > 0}
    if not delivers:
        return not rem
    caps = [Counter(d) for d in delivers]
    total = Counter()
    for c in caps:
        total.update(c)
    for k, v in rem.items():
        if v > total.get(k, 0):
            return False
    if sum(rem.values()) < len(delivers):
        return False
    used = {k: [] for k in rem}          # string -> items currently holding one of its slots

    def try_item(i, seen):
        for k in caps[i]:
            if k not in rem or k in seen:
                continue
            seen.add(k)
            if len(used[k]) < rem[k]:
                used[k].append(i)
                return True
            for pos, j in enumerate(used[k]):
                if try_item(j, seen):
                    used[k][pos] = i
                    return True
        return False
    import sys
    sys.setrecursionlimit(max(sys.getrecursionlimit(), 10000))
    for i in range(len(delivers)):
        if not try_item(i, set()):
            return False
    return True


def match_group(impl, spec, is_cb=False):
    i = 0
    k = 0
    while k < len(spec):
        s = spec[k]
        if s.startswith('DELIVER{') or s.startswith('RETAINED{'):
            pool = []
            while k < len(spec) and (spec[k].startswith('DELIVER{') or spec[k].startswith('RETAINED{')):
                pool.append(spec[k])
                k += 1
            run = []
            while i < len(impl) and impl[i].startswith('PUB '):
                w, ok = wild(impl[i])
                if not ok and not is_cb:   # the identifier a callback sees is not compared
                    return False
                run.append(w)
                i += 1
            remaining = Counter(run)
            for it in pool:
                if it.startswith('RETAINED{'):
                    for c in copies_of(it):
                        if remaining.get(c, 0) <= 0:
                            return False
                        remaining[c] -= 1
            if not assign([copies_of(it) for it in pool if it.startswith('DELIVER{')], remaining):
                return False
            continue
        if s.endswith('|CLOSED'):
            want = s[:-len('|CLOSED')]
            if i < len(impl) and impl[i] == want:
                i += 1
                k += 1
                continue
            # closed instead: nothing else may follow
            return impl[i:] == ['CLOSED']
        if s.startswith('CONNACK 1|0 '):
            # SessionPresent left open (client whose only state stems from an unanswerable CONNECT)
            if i < len(impl) and impl[i] in ('CONNACK 1 ' + s[len('CONNACK 1|0 '):], 'CONNACK 0 ' + s[len('CONNACK 1|0 '):]):
                i += 1
                k += 1
                continue
            return False
        if s.startswith('REFUSED{'):
            codes = copies_of(s)
            rest = impl[i:]
            if rest == ['CLOSED']:
                return '-' in codes
            if len(rest) == 2 and rest[1] == 'CLOSED' and rest[0].startswith('CONNACK 0 '):
                return rest[0].split()[2] in codes
            return False
        if i >= len(impl) or impl[i] != s:
            return False
        i += 1
        k += 1
    return i == len(impl)


def _unhex(s):
    if s == '-':
        return b''
    try:
        return binascii.unhexlify(s)
    except Exception:
        return None


def op_topics(op):
    """the topic names and filters an event line carries (will topic, PUBLISH topic, requested
    filters) - by position in the line protocol, so that payloads and client ids are not mistaken
    for topics"""
    w = op.split()[1:]
    out = []
    segs, cur = [], []
    for x in w:
        if x == ';':
            segs.append(cur)
            cur = []
        else:
            cur.append(x)
    segs.append(cur)
    for k, v in enumerate(segs):
        if not v:
            continue
        if v[0] in ('first', 'firstp', 'failfirst', 'hsrace') and len(v) > 7 and v[2] == 'connect':
            if v[7] != '~':
                out.append(v[7].split(':')[0])
            continue
        if v[0] == 'pkt':
            v = v[2:]
        if not v:
            continue
        if v[0] in ('publish', 'srvpub') and len(v) > 4:
            out.append(v[4])
        elif v[0] == 'subscribe' and len(v) > 2:
            out.extend(e.split(':')[0] for e in v[2].split(','))
        elif v[0] == 'unsubscribe' and len(v) > 2:
            out.extend(v[2].split(','))
        elif v[0] in ('srvsub', 'srvunsub') and len(v) > 2:
            out.append(v[2])
        elif v[0] == 'srvsubrepub' and len(v) > 4:
            out.extend([v[2], v[4]])
        elif v[0] == 'unsubrace' and len(v) > 5:
            out.extend(v[4].split(','))
            out.append(v[5])
    return [t for t in map(_unhex, out) if t is not None]


def sys_topic_event(op):
    """the event names a topic or filter beginning with '$'.  Such topics are outside the
    quantifier of the properties (MQTT 3.1.1 4.7.2; DESIGN 14.3).  The reference broker
    (Spec/Broker.lean) treats them like any other topic - it grants "$SYS/#" and fans a PUBLISH
    on "$SYS/x" out - whereas this broker turns them away at the topic store.  Neither is demanded
    by a property, so the oracle leaves the outcome of such an event open (the tie still compares
    the implementation with the code-shaped model on these lines)."""
    return any(t.startswith(b'$') for t in op_topics(op))


def _sys_pub(item):
    w = item.split()
    return len(w) == 7 and w[0] == 'PUB' and w[4].startswith('24')


def _drop_sys(items, spec_side):
    """forwarded or retained copies of messages on topics beginning with '$' are not compared: the
    reference broker may hold a retained message or a subscription (will topics, earlier '$' events)
    that this broker refused"""
    out = []
    for it in items:
        if spec_side and (it.startswith('DELIVER{') or it.startswith('RETAINED{')):
            head = it[:it.index('{')]
            cs = [c for c in copies_of(it) if not _sys_pub(c)]
            if not cs and copies_of(it):
                continue
            out.append('%s{%s}' % (head, ','.join(cs)))
        elif _sys_pub(it):
            continue
        else:
            out.append(it)
    return out


def broker_oracle(op, impl, spec):
    if spec == '*' or spec == impl:
        return True
    if impl in ('panic', 'bad-op'):
        return False
    if sys_topic_event(op):
        return True
    gi, ei = parse_line(impl)
    gs, es = parse_line(spec)
    if '24' in impl or '24' in spec:
        gi = {g: _drop_sys(v, False) for g, v in gi.items()}
        gs = {g: _drop_sys(v, True) for g, v in gs.items()}
    if ei != es:
        return False
    for g in set(gi) | set(gs):
        if '?' in gs.get(g, []):
            # the specification leaves this connection's own group open on this line (a client that
            # sent a packet it has no business sending): everybody else is still checked
            continue
        if not match_group(gi.get(g, []), gs.get(g, []), g.startswith('cb')):
            return False
    return True


def broker_nontrivial(op, out):
    return out not in ('reset', '-')


def _args(op):
    return op.split()[2:]


def _topics_in(op):
    out = []
    for a in _args(op):
        for part in re.split(r'[:,]', a):
            if re.fullmatch(r'(?:[0-9a-f]{2})+', part):
                try:
                    out.append(binascii.unhexlify(part))
                except Exception:
                    pass
    return out


def has_empty_level(prefix):
    return any(t.startswith(b'/') or t.endswith(b'/') or b'//' in t for op in prefix for t in _topics_in(op))


BROKER_ASSUMPTIONS = [
    "one event = one atomic step (one processor goroutine per connection; trie accesses under smu/rmu; packet writes under wmu) — the schedule quantifier is represented only by the order of events",
    "the correspondence serialises events behind PINGREQ/PINGRESP barriers on every live connection",
    "outbound ack queues (Pub1ack/Pub2out) have no observable effect in the broker role and are not modelled",
    "packets are compared decoded (field level) with the harness's own reference codec; byte-level codec properties are C03/C04",
    "fan-out order is a Go map order: runs of consecutive PUBLISH packets are compared as multisets; the identifier an in-process callback sees is not compared",
    "`unsubrace` events: the other connection's PUBLISH is written the moment the harness's client of the unsubscribing connection has parsed the UNSUBACK, with no barrier in between, and the line is observed behind barriers on the publisher, then the unsubscriber, then everybody else; a broker that acknowledges before it has removed the filters is caught dynamically only if its removal loop outlasts the harness's reaction time (0.1-0.5 ms against 5-10 ms for the generated lists of 600-1000 filters of 70-100 levels) - the statement order itself is a regenerated fact (C07_ack_follows_effects)",
    "`srvsubrepub` callbacks call Server.Publish (same payload, QoS 0, RETAIN 0) from inside the callback; the Lean driver performs the nested publish right behind the delivery on the state after the step (such a publish draws no identifier and retains nothing, so it commutes with the rest of the step), follows at most 4 nested levels (the generators keep targets disjoint from the republishing callbacks' filters), leaves the line open when a republishing callback holds several matching subscriptions, and republishes nothing for copies on topics beginning with '$' (which only the reference broker hands to a callback; such copies are not compared)",
    "`hsrace` events: while one is in progress the harness's authenticator holds every user name beginning with \"slow\" inside Authenticate (it signals the entry; released when the other connection has been observed to the end, at the latest after 5 s); the driver takes the other connection's first packet before the held CONNECT - the order in which the unchanged code completes them - and that the two handshakes share no state is what the event tests, not an assumption",
    "a CONNECT that carries the client identifier of a live connection ends that connection first (MQTT-3.1.4-2): its CLOSED, its will and the new connection's CONNACK are one output line; the broker finishes the old connection's teardown before it answers (Server.connectMu), so the line is complete when the CONNACK has been read and the barriers on the other connections have returned",
    "the identifier generated for a client that connects without one (auto- + 96 random bits from crypto/rand) never coincides with a client-supplied identifier or with another generated one: the model represents it by a byte string outside the set of acceptable supplied identifiers",
]


def mk(pid, module, runs, classes=None):
    register(Prop(pid, module, ['broker'], runs=runs, oracle=broker_oracle, nontrivial=broker_nontrivial,
                  spec_total=False,
                  classes=dict({'empty_level': has_empty_level}, **(classes or {})),
                  assumptions=BROKER_ASSUMPTIONS, trusted=COMMON_TRUSTED + [
                      "regenerated facts: topics.MaxQosAllowed, message.SupportedVersions, Ackqueue tables"]))


mk('C01', 'Mqtt.Properties.C01', [Run('broker', quick=30000, thorough=120000, seeds_thorough=8)])
mk('C02', 'Mqtt.Properties.C02', [Run('broker-qos', quick=30000, thorough=120000, seeds_thorough=8)])
mk('C07', 'Mqtt.Properties.C07', [Run('broker-sub', quick=30000, thorough=120000, seeds_thorough=8)])
mk('C08', 'Mqtt.Properties.C08', [Run('broker-ret', quick=30000, thorough=120000, seeds_thorough=8)])
mk('C09', 'Mqtt.Properties.C09', [Run('broker-will', quick=30000, thorough=120000, seeds_thorough=8)])
mk('C10', 'Mqtt.Properties.C10', [Run('broker-sess', quick=30000, thorough=120000, seeds_thorough=8)])
mk('C11', 'Mqtt.Properties.C11', [Run('broker-first', quick=30000, thorough=120000, seeds_thorough=8)])


# C05: the same broker oracle on byte-level events (`rawfirst`, `raw`).  The bytes are framed and
# decoded by Model/Framing + Model/Codec in the driver (both streams); a broker process that dies
# ends the implementation stream early (= violation with replay).
C05_ASSUMPTIONS = BROKER_ASSUMPTIONS + [
    "byte streams become events through Model/Framing (getMessageBuffer, peekMessageSize/peekMessage) and Model/Codec; the reference broker receives the same events (what the decoders accept is C03/C04's subject)",
    "what a connection receives on the line on which it is closed is not observed (socket closed before the sender goroutine flushes), except the CONNACK answering its first packet; what a mid-packet connection receives is reported when it is at a packet boundary again",
    "real panics, out-of-memory and goroutine death are runtime events: the model has them only as explicit outcomes of the steps it contains (decoders, framing); logging, TLS and the websocket bridge are outside",
    "the implementation runs with GOMEMLIMIT and an address-space limit (lib/vcheck/corr.py): an input that makes the broker allocate gigabytes kills the process and is reported as a crash",
]
register(Prop('C05', 'Mqtt.Properties.C05', ['broker'],
              runs=[Run('broker-iso', quick=20000, thorough=100000, seeds_thorough=8),
                    Run('broker-iso-sweep', quick=2500, thorough=30000, seeds_thorough=2)],
              oracle=broker_oracle, nontrivial=broker_nontrivial, spec_total=False,
              classes={'empty_level': has_empty_level},
              assumptions=C05_ASSUMPTIONS, trusted=COMMON_TRUSTED + [
                  "regenerated facts: framing limits (l > 4, cnt from 2 to 5), ring size, deferred recover in handleConnection/processor, non-fatal processIncoming errors do not end the processor, packet-type and codec tables",
                  XLATE_TRUSTED]))
