"""Core E — broker (C01, C02, C07, C08, C09, C10, C11): oracle on event lines"""
import re, binascii, itertools
from collections import Counter
from .props import Prop, Run, register, COMMON_TRUSTED, eq_lines

GROUP = re.compile(r'(cb?\d+)\[([^\]]*)\]')


def parse_line(line):
    groups = {m.group(1): [x for x in m.group(2).split(';') if x] for m in GROUP.finditer(line)}
    return groups, ('apierr' in line.split())


def wild(pub_item):
    # "PUB d q r topic id payload" -> (canonical with d and id wildcarded, ok_id)
    w = pub_item.split()
    q, pid = int(w[2]), w[5]
    ok = (pid == '0') if q == 0 else (pid != '0')
    return 'PUB * %s %s %s * %s' % (w[2], w[3], w[4], w[6]), ok


def copies_of(item):
    inner = item[item.index('{') + 1:item.rindex('}')]
    return [x for x in inner.split(',') if x]


def assign(delivers, remaining):
    """each DELIVER item must receive a non-empty sub-multiset of its copies; nothing may be left over"""
    if not delivers:
        return sum(remaining.values()) == 0
    cnt = Counter(delivers[0])
    keys = list(cnt)
    ranges = [range(0, min(cnt[k], remaining.get(k, 0)) + 1) for k in keys]
    for choice in itertools.product(*ranges):
        if sum(choice) == 0:
            continue
        rem = Counter(remaining)
        for k, n in zip(keys, choice):
            rem[k] -= n
        if assign(delivers[1:], rem):
            return True
    return False


def match_group(impl, spec, is_cb=False):
    i = 0
    k = 0
    while k < len(spec):
        s = spec[k]
        if s.startswith('DELIVER{') or s.startswith('RETAINED{'):
            pool = []
            while k < len(spec) and (spec[k].startswith('DELIVER{') or spec[k].startswith('RETAINED{')):
                pool.append(spec[k])
                k += 1
            run = []
            while i < len(impl) and impl[i].startswith('PUB '):
                w, ok = wild(impl[i])
                if not ok and not is_cb:   # the identifier a callback sees is not compared
                    return False
                run.append(w)
                i += 1
            remaining = Counter(run)
            for it in pool:
                if it.startswith('RETAINED{'):
                    for c in copies_of(it):
                        if remaining.get(c, 0) <= 0:
                            return False
                        remaining[c] -= 1
            if not assign([copies_of(it) for it in pool if it.startswith('DELIVER{')], remaining):
                return False
            continue
        if s.endswith('|CLOSED'):
            want = s[:-len('|CLOSED')]
            if i < len(impl) and impl[i] == want:
                i += 1
                k += 1
                continue
            # closed instead: nothing else may follow
            return impl[i:] == ['CLOSED']
        if s.startswith('REFUSED{'):
            codes = copies_of(s)
            rest = impl[i:]
            if rest == ['CLOSED']:
                return '-' in codes
            if len(rest) == 2 and rest[1] == 'CLOSED' and rest[0].startswith('CONNACK 0 '):
                return rest[0].split()[2] in codes
            return False
        if i >= len(impl) or impl[i] != s:
            return False
        i += 1
        k += 1
    return i == len(impl)


def broker_oracle(op, impl, spec):
    if spec == '*' or spec == impl:
        return True
    if impl in ('panic', 'bad-op'):
        return False
    gi, ei = parse_line(impl)
    gs, es = parse_line(spec)
    if ei != es:
        return False
    for g in set(gi) | set(gs):
        if '?' in gs.get(g, []):
            # the specification leaves this connection's own group open on this line (a client that
            # sent a packet it has no business sending): everybody else is still checked
            continue
        if not match_group(gi.get(g, []), gs.get(g, []), g.startswith('cb')):
            return False
    return True


def broker_nontrivial(op, out):
    return out not in ('reset', '-')


def _args(op):
    return op.split()[2:]


def _topics_in(op):
    out = []
    for a in _args(op):
        for part in re.split(r'[:,]', a):
            if re.fullmatch(r'(?:[0-9a-f]{2})+', part):
                try:
                    out.append(binascii.unhexlify(part))
                except Exception:
                    pass
    return out


def has_empty_level(prefix):
    return any(t.startswith(b'/') or t.endswith(b'/') or b'//' in t for op in prefix for t in _topics_in(op))


def has_dollar_level(prefix):
    return any(b'/$' in t for op in prefix for t in _topics_in(op))


def cb_retain_forward(prefix, impl, spec):
    """E10: an in-process callback is handed a live forward with RETAIN still set.  The deviation is
    exactly that: with the flag cleared in the callback groups the oracle is satisfied."""
    if impl is None or spec is None or 'cb' not in impl:
        return False
    def clear(m):
        items = []
        for it in m.group(2).split(';'):
            w = it.split()
            if len(w) == 7 and w[0] == 'PUB':
                w[3] = '0'
            items.append(' '.join(w))
        return '%s[%s]' % (m.group(1), ';'.join(items))
    fixed = re.sub(r'(cb\d+)\[([^\]]*)\]', clear, impl)
    return fixed != impl and broker_oracle(prefix[-1], fixed, spec)


BROKER_ASSUMPTIONS = [
    "one event = one atomic step (one processor goroutine per connection; trie accesses under smu/rmu; packet writes under wmu) — the schedule quantifier is represented only by the order of events",
    "the correspondence serialises events behind PINGREQ/PINGRESP barriers on every live connection",
    "outbound ack queues (Pub1ack/Pub2out) have no observable effect in the broker role and are not modelled",
    "packets are compared decoded (field level) with the harness's own reference codec; byte-level codec properties are C03/C04",
    "fan-out order is a Go map order: runs of consecutive PUBLISH packets are compared as multisets; the identifier an in-process callback sees is not compared",
]


def mk(pid, module, runs, classes=None):
    register(Prop(pid, module, ['broker'], runs=runs, oracle=broker_oracle, nontrivial=broker_nontrivial,
                  spec_total=False, classes=dict({'empty_level': has_empty_level, 'dollar_level': has_dollar_level,
                                'cb_retain_forward': cb_retain_forward}, **(classes or {})),
                  assumptions=BROKER_ASSUMPTIONS, trusted=COMMON_TRUSTED + [
                      "regenerated facts: topics.MaxQosAllowed, message.SupportedVersions, Ackqueue tables"]))


mk('C01', 'Mqtt.Properties.C01', [Run('broker', quick=12000, thorough=80000, seeds_thorough=8)])
mk('C02', 'Mqtt.Properties.C02', [Run('broker-qos', quick=12000, thorough=80000, seeds_thorough=8)])
mk('C07', 'Mqtt.Properties.C07', [Run('broker-sub', quick=12000, thorough=80000, seeds_thorough=8)])
mk('C08', 'Mqtt.Properties.C08', [Run('broker-ret', quick=12000, thorough=80000, seeds_thorough=8)])
mk('C09', 'Mqtt.Properties.C09', [Run('broker-will', quick=12000, thorough=80000, seeds_thorough=8)])
mk('C10', 'Mqtt.Properties.C10', [Run('broker-sess', quick=12000, thorough=80000, seeds_thorough=8)])
mk('C11', 'Mqtt.Properties.C11', [Run('broker-first', quick=12000, thorough=80000, seeds_thorough=8)])


# C05: the same broker oracle on byte-level events (`rawfirst`, `raw`).  The bytes are framed and
# decoded by Model/Framing + Model/Codec in the driver (both streams); a broker process that dies
# ends the implementation stream early (= violation with replay).
C05_ASSUMPTIONS = BROKER_ASSUMPTIONS + [
    "byte streams become events through Model/Framing (getMessageBuffer, peekMessageSize/peekMessage) and Model/Codec; the reference broker receives the same events (what the decoders accept is C03/C04's subject)",
    "what a connection receives on the line on which it is closed is not observed (socket closed before the sender goroutine flushes), except the CONNACK answering its first packet; what a mid-packet connection receives is reported when it is at a packet boundary again",
    "real panics, out-of-memory and goroutine death are runtime events: the model has them only as explicit outcomes of the steps it contains (decoders, framing); logging, TLS and the websocket bridge are outside",
    "the implementation runs with GOMEMLIMIT and an address-space limit (lib/vcheck/corr.py): an input that makes the broker allocate gigabytes kills the process and is reported as a crash",
]
register(Prop('C05', 'Mqtt.Properties.C05', ['broker'],
              runs=[Run('broker-iso', quick=9000, thorough=60000, seeds_thorough=8),
                    Run('broker-iso-sweep', quick=2500, thorough=30000, seeds_thorough=2)],
              oracle=broker_oracle, nontrivial=broker_nontrivial, spec_total=False,
              classes={'empty_level': has_empty_level, 'dollar_level': has_dollar_level, 'cb_retain_forward': cb_retain_forward},
              assumptions=C05_ASSUMPTIONS, trusted=COMMON_TRUSTED + [
                  "regenerated facts: framing limits (l > 4, cnt from 2 to 5), ring size, deferred recover in handleConnection/processor, non-fatal processIncoming errors do not end the processor, packet-type and codec tables"]))
