"""Core A (package message): properties C03 (round trip / canonical / automatic ids) and C04 (total decoders)"""
import re
from .props import Prop, Run, register, COMMON_TRUSTED, XLATE_TRUSTED

# ---- byte string syntax shared with the harness and the Lean driver -----------------


def unhexx(s):
    if s == '-':
        return b''
    out = bytearray()
    for part in s.split('.'):
        if '*' in part:
            n, b = part.split('*')
            out += bytes.fromhex(b) * int(n)
        else:
            out += bytes.fromhex(part)
    return bytes(out)


def hx(b):
    if len(b) == 0:
        return '-'
    if len(b) <= 48:
        return b.hex()
    h = 2166136261
    for c in b:
        h = ((h ^ c) * 16777619) & 0xffffffff
    return '#%d:%08x' % (len(b), h)


_views = re.compile(r' v=\[([^\]]*)\]')
_n = re.compile(r'\bn=(\d+)')
_len = re.compile(r'\blen=(\d+)')
_re = re.compile(r' re=(\S+?)\]?$')
_errn = re.compile(r'err n=(-?\d+)')


def strip_views(s):
    return _views.sub('', s)


def fields_part(dec_line):
    """the field tokens of an `ok …` decode line (between len= and v=/re=)"""
    s = strip_views(dec_line)
    s = re.sub(r' re=\S+$', '', s)
    return re.sub(r'^ok n=\d+ len=\d+ ', '', s)


def match_spec(impl, spec):
    """equality of an implementation line and a specification line; the specification may leave an
    automatically assigned packet identifier open (`id=?`, `????` in hex): any non-zero value, the same everywhere"""
    impl = strip_views(impl)
    if '?' not in spec:
        return impl == spec
    parts = re.split(r'(\?\?\?\?|id=\?)', spec)
    pat, kinds = '', []
    for p in parts:
        if p == '????':
            pat += '([0-9a-f]{4})'
            kinds.append(16)
        elif p == 'id=?':
            pat += 'id=([0-9]+)'
            kinds.append(10)
        else:
            pat += re.escape(p)
    m = re.fullmatch(pat, impl)
    if not m:
        return False
    vals = {int(g, k) for g, k in zip(m.groups(), kinds)}
    return len(vals) == 1 and 0 not in vals


def views_inside(impl):
    """every reported field view lies inside the first n bytes of the input"""
    mv = _views.search(impl)
    mn = _n.search(impl)
    if not mv or not mn:
        return False
    n = int(mn.group(1))
    for v in filter(None, mv.group(1).split(',')):
        if v == '-':
            continue
        if v == '!':
            return False
        off, ln = v.split('+')
        if int(off) + int(ln) > n:
            return False
    return True


def dec_input(op):
    w = op.split()
    return unhexx(w[3])


# ---- C04: decoders are total -----------------------------------------------------------

def c04_oracle(op, impl, spec):
    w = op.split()
    if w[1] == 'reset':
        return impl == spec
    if w[1] != 'dec':
        return impl != 'panic' and 'd[panic]' not in impl
    me = _errn.fullmatch(impl)
    if me:
        # an error return: its byte count lies in [0, len(input)], and a well-formed packet must be accepted
        k = int(me.group(1))
        return 0 <= k <= len(dec_input(op)) and not spec.startswith('ok ')
    if not impl.startswith('ok '):
        return False                      # panic
    n = int(_n.search(impl).group(1))
    if n > len(dec_input(op)) or not views_inside(impl):
        return False
    if spec.startswith('ok '):
        # correct count and field values (Len and re-encoding are C03's business)
        return _n.search(spec).group(1) == str(n) and fields_part(impl) == fields_part(spec)
    return True


# ---- C03: round trip, canonical form, automatic identifiers ----------------------------

def canonical(op_input, dec_line):
    """an accepted byte string re-encodes to exactly its first n bytes, and Len() = n"""
    n = int(_n.search(dec_line).group(1))
    ln = int(_len.search(dec_line).group(1))
    m = _re.search(dec_line)
    return ln == n and n <= len(op_input) and m is not None and m.group(1) == hx(op_input[:n])


def c03_oracle(op, impl, spec):
    w = op.split()
    if w[1] == 'reset':
        return impl == spec
    if w[1] == 'dec':
        if spec.startswith('ok '):
            return match_spec(impl, spec)
        if impl.startswith('ok '):
            return canonical(dec_input(op), impl)
        return True                       # err; a panic on a malformed input is C04's finding
    if w[1] == 'idseq':
        return impl.startswith(spec + ' ')
    if w[1] == 'build':
        if impl == 'panic' or 'd[panic]' in impl:
            return False
        if spec == 'from-any' or spec.endswith(' nwf'):
            # no MQTT packet is denoted: Encode may refuse; if it does not, it must write exactly Len() bytes
            if spec.endswith(' nwf') and not impl.startswith(spec[:-3]):
                return False              # setter acceptance differs
            if ' enc=ok ' in impl:
                return _len.search(impl).group(1) == _n.search(impl).group(1)
            return True
        return match_spec(impl, spec)
    return impl == spec


def codec_nontrivial(op, model_out):
    w = op.split()
    if w[1] == 'dec':
        return model_out.startswith('ok ')
    if w[1] == 'build':
        return ' enc=ok ' in model_out
    return w[1] == 'idseq'


# ---- known-finding classes (predicates on the op prefix of an episode) -----------------

def _last(ops):
    return ops[-1].split()


CLASSES = {
}

ASSUMPTIONS = [
    "Go semantics assumed by the model: slice bounds panics (inputs have cap == len), copy, append, encoding/binary "
    "(Uvarint/PutUvarint/BigEndian modelled arithmetically), regexp ^[[:print:]]{0,32}$ = at most 32 bytes in 0x20..0x7e",
    "lengths are naturals (int is 64 bit; messages of 2^31 bytes are unreachable); the 64-bit identifier counter and the "
    "int32 conversion of the remaining length are modelled exactly",
    "error texts are not modelled; the byte count of an error return of Decode is modelled by a second function "
    "(Model.Codec.decodeNewErrN: the positions of the error returns, written next to the decoders), printed as `err n=<count>` "
    "by implementation and model alike and compared on every malformed input",
    "well-formed (WF) = structural MQTT 3.1.1 well-formedness over byte strings + the broker's client-id policy and the two "
    "supported protocol name/level pairs (DESIGN section 8); UTF-8 validity and topic-filter syntax are not required",
]
TRUSTED = COMMON_TRUSTED + [
    "regenerated facts: DefaultFlags table, Valid range, QoS constants, maxRemainingLength, maxLPString, msglen thresholds, "
    "varint byte limit, SupportedVersions, CONNACK code range, client-id pattern (message/*.go)",
    "reference encoder of the generators (harness/cmd/corr/codec_gen.go) and Spec/Wire.lean, both written from the MQTT 3.1.1 text",
    XLATE_TRUSTED,
]

register(Prop(
    'C03', 'Mqtt.Properties.C03', ['codec'],
    runs=[Run('codec-wf', quick=25000, thorough=50000, seeds_thorough=5),
          Run('codec-build', quick=25000, thorough=50000, seeds_thorough=5),
          Run('codec-ids', quick=75000, thorough=300000, seeds_thorough=2),
          Run('codec-mal', quick=20000, thorough=60000, seeds_thorough=2)],
    oracle=c03_oracle, nontrivial=codec_nontrivial, spec_total=False, classes=CLASSES,
    assumptions=ASSUMPTIONS, trusted=TRUSTED))

register(Prop(
    'C04', 'Mqtt.Properties.C04', ['codec'],
    runs=[Run('codec-mal', quick=120000, thorough=500000, seeds_thorough=6),
          Run('codec-wfdec', quick=30000, thorough=120000, seeds_thorough=4),
          Run('codec-sweep', quick=2, thorough=3, seeds_thorough=14, exhaustive=True)],
    oracle=c04_oracle, nontrivial=codec_nontrivial, spec_total=False, classes=CLASSES,
    assumptions=ASSUMPTIONS, trusted=TRUSTED))
