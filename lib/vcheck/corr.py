"""correspondence runs: impl stream vs model stream vs spec stream"""
import os, re, json, subprocess, collections
from .env import *

# address-space cap of the implementation process: an input that makes the real code allocate
# gigabytes (a hostile remaining length, C05) must end in a crashed stream, not in the sandbox
# swapping.  GOMEMLIMIT alone is a soft limit.
# (set through the shell's ulimit: preexec_fn is not safe in the threaded check driver)
IMPL_AS_LIMIT_KB = 12 << 20


def gen_ops(gen, seed, n, tier, extra=()):
    rc, out = run([CORR, 'gen', gen, '-seed', str(seed), '-n', str(n), '-tier', tier] + list(extra),
                  env=GOENV, timeout=3600)
    if rc != 0:
        raise RuntimeError('generator %s failed: %s' % (gen, out[-2000:]))
    return [l for l in out.split('\n') if l.strip()]


def _lines(out, n):
    ls = out.split('\n')
    if ls and ls[-1] == '':
        ls.pop()
    return ls


IMPL_TIMEOUT = {'s': 1800}
# While a failure that has been OBSERVED (with the harness's full operation watchdog, 240 s for the scenario cores) is
# reproduced and minimised, the watchdog is shorter: an implementation that hangs would otherwise cost four minutes per
# candidate - a quick check of such a tree took a quarter of an hour.  main sets it around those phases only.
REPLAY_OP_TIMEOUT = {'v': None}


def run_impl(ops, timeout=None, mem='4GiB'):
    """the real code (harness child process); a crash or hang ends the stream early"""
    timeout = timeout or IMPL_TIMEOUT['s']
    env = dict(GOENV, GOMEMLIMIT=mem)
    if REPLAY_OP_TIMEOUT['v'] and not os.environ.get('CORR_OP_TIMEOUT'):
        env['CORR_OP_TIMEOUT'] = REPLAY_OP_TIMEOUT['v']
    data = ('\n'.join(ops) + '\n').encode()
    # the library logs to stderr: keep it out of the stream
    rc, out = run(['/bin/sh', '-c', 'ulimit -v %d 2>/dev/null; exec "$0" run' % IMPL_AS_LIMIT_KB, CORR],
                  env=env, stdin=data, timeout=timeout, stderr=subprocess.DEVNULL)
    ls = _lines(out, len(ops))
    crashed = None
    if rc != 0 or len(ls) < len(ops):
        crashed = 'exit=%s after %d/%d lines' % (rc, len(ls), len(ops))
        # keep only well-formed output lines (a Go crash dump follows them)
        ls = ls[:len(ops)]
    return ls, crashed


def run_drv(ops, mode, timeout=1800):
    data = ('\n'.join(ops) + '\n').encode()
    rc, out = run([DRV, mode], stdin=data, timeout=timeout)
    if rc != 0:
        raise RuntimeError('Lean driver failed (%s): %s' % (mode, out[-2000:]))
    return _lines(out, len(ops))


def episodes(ops):
    """[(start, end)) index ranges; an episode starts at a '<core> reset' line"""
    starts = [i for i, l in enumerate(ops) if l.split()[1:2] == ['reset']]
    if not starts or starts[0] != 0:
        starts = [0] + starts
    return [(s, e) for s, e in zip(starts, starts[1:] + [len(ops)])]


def episode_of(eps, i):
    for s, e in eps:
        if s <= i < e:
            return s, e
    return eps[-1]


class Streams:
    def __init__(self, ops, impl, model, spec, crashed):
        self.ops, self.impl, self.model, self.spec, self.crashed = ops, impl, model, spec, crashed


def run_streams(ops, need_spec=True):
    impl, crashed = run_impl(ops)
    model = run_drv(ops, 'model')
    spec = run_drv(ops, 'spec') if need_spec else model
    return Streams(ops, impl, model, spec, crashed)


def first_bad(st, tie_eq, oracle):
    """index of the first line where the tie or the oracle fails; (idx, kind) or None"""
    n = len(st.ops)
    for i in range(n):
        if i >= len(st.impl):
            return i, 'crash'
        if not oracle(st.ops[i], st.impl[i], st.spec[i]):
            return i, 'oracle'
        if not tie_eq(st.ops[i], st.impl[i], st.model[i]):
            return i, 'tie'
    return None


# time the whole check may spend minimising counterexamples (a change that makes every replay hit
# the implementation's deadlines would otherwise cost minutes per candidate); set by main per tier
SHRINK_SECONDS = {'total': 240.0, 'each': 90.0, 'spent': 0.0}


def shrink(ops, fails, budget=400):
    """delta debugging on an op list whose first line is the reset; `fails(ops)` → bool.
    Bounded by calls and by wall-clock time: what is returned still fails, it may just not be minimal."""
    import time as _t
    t0 = _t.time()

    def out_of_time():
        el = _t.time() - t0
        return el > SHRINK_SECONDS['each'] or SHRINK_SECONDS['spent'] + el > SHRINK_SECONDS['total']
    try:
        return _shrink(ops, fails, budget, out_of_time)
    finally:
        SHRINK_SECONDS['spent'] += _t.time() - t0


def _shrink(ops, fails, budget, out_of_time):
    head, body = ops[:1], ops[1:]
    calls = 0
    chunk = max(1, len(body) // 2)
    while chunk >= 1 and calls < budget and not out_of_time():
        i = 0
        progressed = False
        while i < len(body) and calls < budget and not out_of_time():
            cand = body[:i] + body[i + chunk:]
            calls += 1
            if fails(head + cand):
                body = cand
                progressed = True
            else:
                i += chunk
        if not progressed:
            if chunk == 1:
                break
            chunk = max(1, chunk // 2)
    return head + body
