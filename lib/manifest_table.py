HOOK_COMMITS = ["cbdc291", "c5df4fc", "57485bb", "21f5b8c", "b16838a", "6999814"]
NOT_APPLICABLE = {}
CLAIMS = {
 'C13': dict(category='proof', ref='5 Core C, 8 C13',
   text="Lean 4 theorems over all operation histories: the code-shaped ring+index-map queue with its ping FIFO refines a FIFO list "
        "plus a FIFO of identifier-less ping requests (C13_refines), "
        "exactly-once FIFO hand-back with byte-identical requests (C13_exactly_once_fifo; for any number of outstanding pings "
        "C13_pings_exactly_once_fifo, C13_pings_released_answered, C13_pingresp_effect), release only when terminal and eagerly "
        "(C13_released_terminal, C13_release_eager), unknown acks are no-ops; the regenerated switch tables equal the protocol's "
        "(C13_tables_are_protocol); model tied to sessions/ackqueue.go by differential runs (real code vs model vs specification)"),
 'C06': dict(category='proof', ref='5 Core B, 8 C06',
   text="Lean 4 theorems over ALL tries, histories and names (no bounds), about the code-shaped model of topics/memtopics.go that the "
        "differential runs tie to the Go code: C06_smatch_char (smatch returns, up to map order, exactly the trie entries whose path "
        "the name walk selects, each with min(publish QoS, subscription QoS)); C06_walk_eq_spec (that walk IS section-4.7 matching on "
        "level lists); C06_sinsert_refines / C06_sremove_refines / C06_pruned_preserved (insert replaces-or-adds one entry, remove "
        "deletes exactly one, failed walks change no entry, unique-key and pruning invariants kept); C06_levels_spec (the byte state "
        "machine nextTopicLevel computes the specification's split and accepts exactly the valid filters); C06_store_refines and "
        "C06_subscribers_partial (after any history the trie holds exactly the abstract store's subscriptions and Subscribers answers as "
        "the specification does); C06_invalid_filter_rejected; for retained messages C06_rmatch_char, C06_rwalk_eq_spec, "
        "C06_retained_trie_refines, C06_retained_pruned_preserved, C06_retained_store_refines, C06_retained_partial; topics beginning "
        "with '$' (outside the quantifier) are turned away by all five entry points, store unchanged (C06_dollar_topics_rejected); a '$' "
        "anywhere else is an ordinary character since finding B4 ('$' below the first level rejected) was repaired "
        "(C06_dollar_level_literal: 'a/$b' is subscribed, matched literally and retained); the empty topic (zero characters: neither a "
        "name nor a filter, MQTT-4.7.3-1) is turned away by all five entry points as well since finding B6 (the empty filter was stored "
        "at the root of the trie and granted) was repaired, and no entry point reaches the root node of either trie "
        "(C06_empty_topic_rejected). PARTIAL: the history/levels theorems carry "
        "the decidable hypothesis 'no empty level in any topic argument - the empty topic itself is admitted -' (and retained topics "
        "are valid names or empty) - exactly the open "
        "finding B3 (empty levels, pinned by the suite); queried names/filters additionally must not begin with '$' (`good`); the "
        "unrestricted statements are kept next to proved counterexamples (C06_subscribers_full_counterexample, "
        "C06_retained_full_counterexample, C06_levels_counterexample_empty_level) and the "
        "deviant inputs are replayed on the real code on every run. Exhaustive sweep of all filter x name pairs up to 3/4 levels over "
        "{a,b,'',+,#} and random histories tie model, code and specification"),
}

_BROKER_TEXT = ("Sequential Lean model of the broker (handleConnection/getSession/processIncoming/stop, over decoded packets) tied to "
                "the real service.Server by differential runs over net.Pipe with PINGREQ barriers, and compared event by event with "
                "a reference broker written from MQTT 3.1.1 and the property text (oracle: membership where the property leaves a "
                "choice). %s Schedules are represented only by event order (one event = one atomic step; that atomicity rests on the "
                "lock discipline of C18).")
_BROKER = {
 'C01': "Theorems: under construction (fan-out characterisation over the C06 trie theorems).",
 'C02': "Theorems: under construction (QoS 1/2 receiver flows, FIFO hand-over of QoS 2).",
 'C07': "Theorems: under construction (one SUBACK/UNSUBACK per request, codes per filter).",
 'C08': "Theorems: under construction (retained store = last non-empty retained publish; delivery after SUBACK).",
 'C09': "Theorems: under construction (will published exactly once on abnormal end, never after DISCONNECT, from the current CONNECT).",
 'C10': "Theorems: under construction (SessionPresent, clean-session discard, resubscription).",
 'C11': "Theorems: under construction (CONNACK table; refused first packets leave the state unchanged).",
}
for _k, _t in _BROKER.items():
    CLAIMS[_k] = dict(category='exploration', ref='5 Core E, 8 ' + _k, text=_BROKER_TEXT % _t,
                      technique="Lean 4 executable model + reference specification, differential correspondence to the real broker; proofs in progress")

CLAIMS['C19'] = dict(category='proof', ref='8 C19',
    text="Lean theorems over the regenerated deadline expression and constants: for every keep-alive K>0 the read deadline d(K) satisfies "
         "K < d(K) <= 1.5K (C19_deadline_window), a CONNECT keep-alive of 0 still yields a positive effective value (C19_effective_pos), "
         "and on the receiver's timed state machine (deadline re-armed at every read) a client whose packets arrive less than K apart is "
         "never timed out whatever the read delays (C19_active_never_dropped) while a silent one is timed out at most 1.5K after the "
         "pending read was armed (C19_silent_dropped); PINGREQ is answered by exactly one PINGRESP (C19_pingreq_pingresp); the source "
         "still has the shape the model assumes (C19_source_shape, regenerated). On the connection life-cycle model of C16 (imported): the "
         "keep-alive event is exactly a failing pending read (C19_expiry_is_a_read_error), and in EVERY reachable state in which the read "
         "deadline has fired - any buffer contents, in particular own outgoing ring full with the connection's own processor parked in it "
         "behind a client that has stopped reading - fair round-robin ends within rank(s) rounds in the complete teardown: goroutines "
         "exited, socket closed, stop() effects complete, the will published if its flag was set and no DISCONNECT was pending "
         "(C19_timeout_tears_down, citing C16_read_failure_completes / C16_teardown_completes / C16_self_held_not_ended; repair b77088f, "
         "finding F7 - before it such a connection survived the time-out: C16_old_receiver_wedges). FULL STATEMENT FALSE of the code "
         "(open finding F8): the deadline is armed per socket read and a read is issued only while the incoming ring is not completely full "
         "(since 8f682d1; before: only while a whole read block was free, finding F3); a "
         "client that stops reading and keeps sending until its writes block fills both rings completely, the receiver waits for space, nothing is "
         "armed, silence changes nothing (C19_silence_counterexample: closed reachable state, invariant under every schedule of thread "
         "steps and deadline attempts). Tied to the real broker by timed scenarios (K=1,2 s: "
         "silent from start, pinging, publishing, interval above the deadline, silent subscriber, and a subject that has stopped READING: "
         "deafsub, deafecho = F7 witness, deafflood = F8 witness; the deaf kinds' model stream is computed on the life-cycle model) with a "
         "will witness. PARTIAL: real time, timers and scheduler latency are trusted, not modelled; C19_timeout_tears_down is under weak "
         "fairness with socket semantics as parameters (a Close makes a blocked Write fail).")

_CLIENT_TEXT = ("Sequential Lean model of the client role (Connect, publish/subscribe/unsubscribe/ping with their completion wrappers, "
                "processIncoming as a client) tied to the real service.Client by differential runs against a scripted TCP peer (PINGREQ "
                "barrier from the peer; an acknowledgement that arrives between the write of a request and its registration is forced on the real code through the verif ack-window hook), and "
                "compared event by event with a reference client written from MQTT 3.1.1 and the property text. %s")
CLAIMS['C12'] = dict(category='exploration', ref='8 C12', text=_CLIENT_TEXT % "Theorems: under construction.",
                     technique="Lean 4 executable model + reference specification, differential correspondence with forced interleaving; proofs in progress")
CLAIMS['C20'] = dict(category='exploration', ref='8 C20', text=_CLIENT_TEXT % "Theorems: under construction.",
                     technique="Lean 4 executable model + reference specification, differential correspondence; proofs in progress")

_REFINE_FWD = " REFINEMENT: see C01 (`Broker_refines_spec`, side condition okEv, relation R, `Accepts`)."
CLAIMS['C02'] = dict(category='proof', ref='5 Core E, 8 C02',
    text=_BROKER_TEXT % ("Theorems (23, all states satisfying the proved invariant BInv / all histories): exactly one PUBACK per QoS 1 PUBLISH and one "
        "hand-over per PUBLISH received (C02_qos1); a QoS 2 PUBLISH is answered by exactly PUBREC and nothing is handed on at PUBLISH time, a "
        "repeated identifier keeps the first content (C02_qos2_publish); PUBREL hands over the released prefix and is answered by exactly one "
        "PUBCOMP, last (C02_pubrel, C02_releaseAll), PUBREC by exactly PUBREL (C02_pubrec); exactly-once conservation over any history of any "
        "connections sharing a session: handed ++ still open = opened, in order (C02_exactly_once, C02_handed_is_output), eager release "
        "(C02_release_eager), other events do not touch the queue (C02_queue_frame); the QoS 2 queue is the FIFO of C13 "
        "(C02_pub2in_is_fifo/_is_ackqueue); persistence across reconnects of CleanSession=0 sessions (C02_persist, C02_resume, C02_clean_start). "
        "C02_refines_reference: after any admitted history the reference broker's open exchanges are the image of the model's queue, PUBREC/PUBCOMP and the hand-overs on PUBREL are those it demands. "
        "The client role is tied by the client correspondence runs (its theorems are under C12/C20; since the repair of E5, 346378d, a PUBACK/PUBCOMP that arrives "
        "before Publish has registered its request completes it - no recorded deviation of the sender side is left in these runs).") + _REFINE_FWD +
        " PARTIAL: content isolation from ring-buffer reuse is a memory-aliasing fact the pure model cannot exhibit; it is covered by the "
        "correspondence (payloads compared byte for byte after intervening traffic), not by a theorem.")

CLAIMS['C17'] = dict(category='exploration', ref='8 C17',
    text="Concurrent deliveries on the real broker (2-8 unserialised publishers, packets that wrap the 16 KiB outgoing ring mid-packet) with a strict "
         "reference parse of every byte the subscriber receives and per-publisher sequence numbers; plus the sequential broker correspondence for "
         "ordering. Lean model of writeMessage as a small-step concurrent program under wmu (Model/WriteLock.lean); theorems (packets_atomic for all "
         "schedules, per-publisher order on the broker model) under construction.",
    technique="Lean 4 small-step model of the write lock + concurrent differential runs; proofs in progress")

_PARTIAL_SCHED = (" PARTIAL: theorems are about the sequential model (one event = one atomic step); real interleavings inside one event are represented only "
                  "by the order of events, and that atomicity rests on the lock discipline (C18). Topic arguments of the trie-level statements carry the "
                  "decidable hypothesis `good` (no empty level: exactly the open finding B3, whose full statements are kept beside proved "
                  "counterexamples and whose witnesses are replayed on the real code on every run; and not beginning with '$': such topics are "
                  "outside the properties' quantifier, the store turns them away and the oracle leaves events naming them open).")
_REFINE = (" HISTORIES WITH FAILED HANDSHAKES: `Cxx_refines_reference_with_failed_handshakes` states the same after every admitted history of the extended event type EvX = Ev + failFirst (first packets whose answer cannot be written: Model/Spec `connectFail`, `BrokerX_refines_spec`, Proofs/BrokerRefineFail.lean, BrokerRefineCorX.lean), which is what the runs contain since the event `failfirst`. REFINEMENT (Proofs/BrokerRefine*.lean, `Broker_refines_spec`): one theorem for all histories - under the abstraction relation R (trie entries = "
           "the reference broker's held list, retained trie = its retained messages, live sessions/connections = its connection records incl. will, "
           "CleanSession, open inbound QoS 2 exchanges and Session.topics, stored CleanSession=0 sessions = its stored map, at most one live connection per client identifier) every event admitted by the "
           "decidable side condition okEv (topic/filter arguments `good` - no empty level: finding B3, no leading '$' -; PUBLISH topic a valid name, QoS <= 2, "
           "identifier unless QoS 0; a first packet arrives on a connection number that is not live and below cbBase, the will topic of an accepted CONNECT is a good valid name - a CONNECT "
           "with the client identifier of a live connection is admitted: it takes that connection over on both sides (MQTT-3.1.4-2; finding G5 repaired), `stop` / `endConn` before the handshake; "
           "in-process callbacks have ids >= cbBase) takes related states to related states and the model's output lies in the set the reference broker's output "
           "describes (`Accepts`, Spec/BrokerAccepts.lean: the Lean counterpart of the differential oracle broker_oracle/match_group, never weaker); CONNECT of a "
           "resumed session and connection end (will, unsubscribe-all, stored session) included; non-vacuity: a 17-event history with two clients, wildcard "
           "subscription, retained publish, QoS 2 exchange, will on close, persistent-session reconnect, in-process API, refused first packet and an anonymous "
           "client, admitted by `decide`.")
CLAIMS['C01'] = dict(category='proof', ref='5 Core E, 8 C01', text=_BROKER_TEXT % (
    "Theorems (12): exact ordered outputs of the live fan-out incl. the in-place message mutation - RETAIN cleared once before the loop for connections and "
    "in-process callbacks alike, restored after it (C01_fanout_char on fanoutLive, C01_fanout_loop on the bare loop, C01_fanout_ids); onPublish delivers to "
    "exactly one copy per trie entry whose filter matches under section 4.7, at min(publish QoS, granted QoS), same topic, identical payload, and to "
    "nobody else (C01_publish_reaches_matching_partial, _reachable_partial without the liveness hypothesis, C01_publish_held_partial / "
    "C01_nobody_else_partial in terms of the reference broker's held list); after any history (C01_after_history_partial); after a connection end "
    "nothing is forwarded to it (C01_connection_end_partial); B3 counterexample (C01_publish_held_full_counterexample). C01_refines_reference: after ANY "
    "admitted history (resumed sessions and connection ends included) a PUBLISH hands every addressee exactly one copy per matching subscription the reference "
    "broker holds for it, at min(publish, granted) QoS, RETAIN=0, and nothing to anybody else.") + _REFINE + _PARTIAL_SCHED)
CLAIMS['C07'] = dict(category='proof', ref='5 Core E, 8 C07', text=_BROKER_TEXT % (
    "Theorems (20 with the source tie): exactly one SUBACK, first, same id, one code per filter in request order = min(requested, maximum) or 0x80, everything after it is a "
    "PUBLISH to the subscriber (C07_suback_shape); codes equal the reference broker's for EVERY filter that does not begin with '$', empty levels and the empty filter included (C07_codes_spec_full_holds - the full statement, true since the repair of B6: the store accepts exactly the valid filters, Proofs.Topics.levels_ok / entryLevels_ok; C07_codes_spec_partial is its corollary; 'a/$b' and '+/$b' are granted since the repair of B4: C07_codes_dollar_level; the empty filter gets 0x80 on both sides: C07_codes_empty_filter); "
    "UNSUBSCRIBE answered by exactly one UNSUBACK (C07_unsuback); both acknowledgements are written after the last change to the subscription store and the session (regenerated statement order, C07_ack_follows_effects); effect on the trie, other subscribers untouched (C07_subscribe_effect, "
    "C07_unsubscribe_effect, C07_granted_is_held); a matching PUBLISH accepted after the SUBACK is forwarded, none after the UNSUBACK "
    "(C07_effective_after_suback_partial, C07_none_after_unsuback_partial); the held list of the reference broker is maintained (C07_held_refines_partial, "
    "_srv_partial; B3 counterexample); regenerated maximum QoS = specification's (C07_facts_maxQos); invariant preserved by every step (C07_inv_step/_run). "
    "C07_refines_reference: after any admitted history SUBACK (first, the reference broker's codes) / UNSUBACK (only output) and afterwards the trie holds exactly the reference broker's held list.") + _REFINE + _PARTIAL_SCHED)
CLAIMS['C08'] = dict(category='proof', ref='5 Core E, 8 C08', text=_BROKER_TEXT % (
    "Theorems (21): every PUBLISH forwarded by onPublish/fanoutLive (any step other than a SUBSCRIBE) to a connection and every live forward handed to an "
    "in-process callback (any step other than its own Server.Subscribe) carries RETAIN=0 (C08_forward_retain_zero, _all, C08_fanout_retain_zero, "
    "C08_step_retain_zero); an in-process subscriber sees RETAIN=0 on a live forward and RETAIN=1 on the retained delivery at subscription time "
    "(C08_callback_retain; E10, repaired by 4cf3ecf); the retain step stores / "
    "replaces / clears exactly that topic (C08_retain_step_partial, C08_one_per_topic_partial, C08_other_topics_untouched_partial, C08_retained_untouched); "
    "the store is the last non-empty retained publish per topic (C08_spec_most_recent, C08_retain_refines_partial, C08_history_partial); after the SUBACK, "
    "per granted filter in request order, exactly the stored messages matching it, RETAIN=1, QoS min(stored, granted), payload as stored "
    "(C08_subscribe_delivers_retained, _partial, C08_subscribe_retained_spec_partial), same for in-process subscribers (C08_srvSub_*); B3 counterexamples. "
    "C08_refines_reference: after any admitted history the retained trie is the reference broker's store and the deliveries after a SUBACK are exactly (as a multiset, DUP/id free) the messages it demands, RETAIN=1.") + _REFINE + _PARTIAL_SCHED +
    " Byte identity of payloads across ring reuse and retained updates concurrent to subscriptions are memory/race facts outside the pure model (correspondence / C18).")
CLAIMS['C09'] = dict(category='proof', ref='5 Core E, 8 C09', text=_BROKER_TEXT % (
    "Theorems (27 with the source ties; SERVER CLOSE is part of the broker model and of every broker run since `srvclose` (Model/Broker.lean `srvClose` = stop() for every live connection in the order of registration; harness event `srvclose` = Server.Close on the real server, one episode in three ends with it): C09_stopAll_is_run, C09_server_close_publishes_wills - it is the run of the non-graceful ends of all live connections, along which the refinement holds, so every will is published (to the in-process subscribers observably; what reaches a connection that is closed on the same line is not observed) -, C09_server_close_is_source ties the loop order of Server.Close (fact takeoverCloseSeq); C09_unanswerable_connect_no_will: a CONNECT whose answer cannot be written yields the ends of the connections it takes over and its own close - its will is never published, no connection and no subscription exists for it): DISCONNECT emits only the close, nothing is published, later events for the connection are silent (C09_disconnect_no_will, "
    "C09_disconnect_after_history); an abnormal end emits the close followed by exactly the fan-out of the will, once (C09_will_published_once, "
    "C09_no_will_no_publish, C09_stopBase); after an accepted CONNECT, fresh or resumed, the session's will is THIS CONNECT's (topic, payload, QoS, "
    "retain) (C09_will_is_current_connect, C09_initWill_fields, C09_current_will_published, C09_will_of_own_connect over quiet histories); no other event "
    "reads a will (C09_only_stop_reads_will, C09_stop_reads_will_only_with_flag, C09_will_kept_step); invariant (C09_inv). "
    "C09_refines_reference: after any admitted history DISCONNECT publishes nothing and any other end publishes exactly the will of the connection's own CONNECT (the reference broker's record), accepted by its fan-out.") + _REFINE + _PARTIAL_SCHED +
    " Keep-alive expiry as a cause is an event of the model; its timing is C19. A CONNECT with the client identifier of a live connection ends that connection (take-over, MQTT-3.1.4-2) and publishes ITS will before the handshake: C09_only_stop_reads_will excludes exactly these first packets (`mayStop`), `quiet` histories treat such a CONNECT as an end of the connection (C09_affectsWill_iff), and for all admitted histories C09_take_over_is_an_end says that such a CONNECT emits exactly the outputs of the end of that connection (`.close`) followed by its CONNACK, in the model and in the reference broker, so C09_refines_reference applies to the connection taken over (C10_refines_reference: the sessions side). Source ties for the take-over (Properties/C09Source.lean, regenerated facts of extract/facts_takeover.go): stop() reads the stored CONNECT's will flag, the will and the CleanSession flag only after wgStopped.Wait(), so a DISCONNECT received before a stop() called from outside (take-over, Server.Close) still suppresses the will (C09_stop_reads_will_after_wait, with the life-cycle model's run of that case), and connectMu is held by defer from before the take-over to the registration in svcs (C09_connectMu_held_to_registration); the held take-over scenario `life takeover disc` runs that case on the real broker.")
CLAIMS['C10'] = dict(category='proof', ref='5 Core E, 8 C10', text=_BROKER_TEXT % (
    "Theorems (23): SessionPresent=1 iff CleanSession=0, non-empty id and the store holds a session kept from a CleanSession=0 connection "
    "(C10_session_present); a clean CONNECT starts from a fresh empty session, tries unchanged (C10_clean_starts_empty); after a clean session ends the "
    "store no longer maps its id (C10_clean_discarded), a persistent one stays with its topics and open QoS 2 exchanges (C10_persistent_kept); on resume the "
    "topic store is the re-subscription of the kept list and every kept entry answers the subscriber lookup for matching names (C10_resume_resubscribes, "
    "C10_resume_trie via C06 smatch_char); a CONNECT under id X changes neither store entry nor session of Y != X (C10_keyed_by_id); trie well-formed in "
    "every reachable state (C10_trie_wf_reachable); regenerated constants = specification's (C10_facts). "
    "C10_refines_reference: after any admitted history an accepted CONNECT first takes over the live connection of its client identifier, if any (there is at most one; model `stop` = reference `endConn`, not graceful), then is answered CONNACK 0 with SessionPresent = (CleanSession=0 and the reference broker stores a session for the id after the take-over: iff the connection taken over had CleanSession=0, or an older session was stored), and the trie then holds the reference broker's held list - nothing of the connection taken over, the resumed subscriptions for the new one.") + _REFINE + _PARTIAL_SCHED +
    " Two live connections under one client identifier no longer exist: take-over (finding G5, repaired; the regression witness - the older connection ending later must not take the newer one's subscription with it - is replayed on every run). Source ties for the take-over (Properties/C10Source.lean, regenerated facts of extract/facts_takeover.go): disconnectClient drops the entries whose `stopped` channel is closed (not those whose `closed` flag is set), collects the client's connections, unlocks, and for each calls stop() and waits for `stopped` - for every population of live / ending / finished connections it returns with every connection of the client FINISHED, which is the state the model's `first` runs in; handleConnection takes connectMu before it and holds it to its return (C10_takeover_shape_is_source); Session.Resumable is initted && Cmsg != nil && !CleanSession and getSession resumes only behind it, the model's `filter (!s.clean)` (C10_resumable_is_source). The held take-over scenario `life takeover resume` (a CONNECT while the old connection's teardown is pending behind a client that does not read: no CONNACK before the teardown has finished, and the new connection's session survives the old one's late end)  is part of every run. FAILED HANDSHAKES (Model/Broker.lean `firstFail`/`connectFail`, Spec/Broker.lean `firstFail`/`connectFail`, Proofs/BrokerRefineFail.lean): the path of handleConnection on which the CONNACK of an accepted CONNECT cannot be written (peer gone) is part of the model - take-over, then the session lookup / Session.Update / creation of getSession, and nothing else: no connection, no re-subscription, no stop() - and of the reference broker (CleanSession=1 discards the stored state, CleanSession=0 keeps it exactly as it was); C10_failed_handshake_refines extends the refinement theorem to histories with such events (EvX, BrokerX_refines_spec: R preserved, outputs accepted), C10_failed_handshake_keeps_session / _model_keeps_session state that the stored session, its subscriptions and open QoS 2 exchanges survive the failed attempt on both sides, C10_failed_write_is_source ties the error branch to the source (regenerated fact takeoverWriteFailReturnsOnly: the branch is `return nil, err` alone). Tie: event `failfirst` (the broker's end of the pipe refuses every write) in one CONNECT of nine of every broker generator; whether a CleanSession=0 CONNECT that could not be answered and found no state counts as an earlier CleanSession=0 connection is left open by the property - the SessionPresent bit of that client's next CONNACK is not compared in the specification stream.")
CLAIMS['C11'] = dict(category='proof', ref='5 Core E, 8 C11', text=_BROKER_TEXT % (
    "Theorems (18; the last two - C11_unanswerable_refusal_changes_nothing, C11_unanswerable_refusal_spec - for a refused first packet whose refusal cannot even be written: state untouched on both sides, only the close): CONNACK 0 is emitted exactly when the reference refusal list is empty; otherwise the state is unchanged and the answer is a silent close "
    "with 'malformed' among the reasons or a code k!=0 with k among them (C11_table, C11_accept_iff, C11_checks_are_spec); precedence of the code's checks "
    "(C11_precedence_*); exactly one CONNACK for a CONNECT that passes the flag checks, none otherwise (C11_one_connack, C11_not_connect); a refused first "
    "packet and any further events on a connection that was never accepted leave the state unchanged and address only that connection "
    "(C11_refused_no_effect, C11_unaccepted_no_effect, C11_dead_noop); regenerated protocol versions = specification's (C11_facts_versions). "
    "C11_refines_reference: after any admitted history a refused first packet changes neither side and is answered by a close / CONNACK code from the reference broker's list of reasons.") + _REFINE +
    " PARTIAL: first packets are decoded CONNECT field records or typed 'other'/'garbage'; byte-level truncations of CONNECT are C04/C05 (codec model).")
CLAIMS['C17'] = dict(category='proof', ref='5 Core F, 8 C17',
    text="Lean small-step model of writeMessage under wmu (any number of writers, all schedules): the consumer-visible stream is always the concatenation of whole "
         "packets in commit order, each writer's packets in its own order, nothing lost or duplicated (C17_packets_atomic, C17_packets_whole, C17_packets_complete, "
         "C17_critical_section); without the mutex two writers reserve the same bytes (C17_unlocked_counterexample); no deadlock inside the critical section and a "
         "termination measure (C17_progress, C17_quiescent_delivered, C17_progress_measure). THE FINITE RING AND THE WRAP BRANCH are modelled too "
         "(Model/WriteWrap.lean: ring of 2^k cells with producer/consumer cursors, one consumer taking out any amount, the shared scratch buffer svc.outtmp - only "
         "ever grown, stale contents kept -, WriteWait blocking while pseq+l-size > cseq and refusing l > size, Encode into the ring + WriteCommit or growth test + "
         "Encode into the scratch buffer + Write(outtmp[0:n]) = waitForWriteSpace again + ringCopy around the ring end + cursor store; the copy IS the translated "
         "service.ringCopy, C17_wrap_ringCopy_is_source). For every ring size 2^k, every initial scratch contents, every number of threads, packet lists of any "
         "lengths and every schedule of thread and consumer steps: no producer step writes a cell holding an unread byte, at most size bytes are unread "
         "(C17_wrap_safety); bytes observed ++ unread bytes on the ring = concatenation of the committed packets in commit order, so the observed stream is a prefix of "
         "whole packets (C17_wrap_stream); per-thread order kept, nothing lost, a delivery fails exactly when its packet is longer than the ring (C17_wrap_order); "
         "mutual exclusion and per-program-counter assertions (C17_wrap_critical_section; as the ring sees it - one producer at a time, the hypothesis of the ring contract of C15/C16: C17_wrap_one_producer); runs from different initial scratch buffers agree on stream, ring, "
         "cursors, threads and log after every step (C17_wrap_scratch_irrelevant); closed counterexamples: Write(outtmp) instead of outtmp[0:n] emits stale bytes "
         "when a small packet wraps after a larger one (C17_wrap_whole_scratch_counterexample), without wmu two wrapping deliveries share the scratch buffer and one "
         "packet is sent twice, the other never (C17_wrap_unlocked_counterexample); progress under an explicit fairness hypothesis - every segment scheduling each "
         "thread and a consumer step asking for >= 1 byte lowers the measure (size+1)*work + unread, so after (size+1)*8*#packets fair segments every packet of "
         "length <= size is committed and every longer one refused (C17_wrap_progress, C17_wrap_eventually). The statement-level shape of writeMessage (Len before "
         "Lock, deferred Unlock, WriteWait(l), if wrap; growth test with make([]byte, l), Encode(svc.outtmp[0:]), Write(svc.outtmp[0:n]); Encode(buf[0:]), "
         "WriteCommit(n)) is regenerated from sendrecv.go on every check (extract/facts_wrap.go; an unrecognised statement is a broken obligation) and equated with the model's step "
         "table, which is read off the model's steps on probe states (C17_wrap_shape_is_source). On the sequential broker model: the stream to a subscriber is the "
         "concatenation of per-event sends; a publisher's QoS 0/1 messages are delivered in publish order and QoS 2 hand-overs in exchange-opening order "
         "(C17_stream_per_event, C17_publisher_order, _precedes, C17_publisher_order_qos2, C17_qos2_fifo, C17_qos2_release_step). Tied by concurrent delivery runs "
         "on the real broker (2-8 unserialised publishers, packets wrapping a 16 KiB ring, strict reference parse, sequence numbers) and the broker correspondence. "
         "REMAINS: real memory - a whole-packet copy is one model step (justified for the locked program by C17_wrap_safety: no concurrent reader of the cells written), "
         "Go slices aliasing svc.outtmp are values; the ring's blocking primitives (condition variables, the gate cache, Close/EOF during a delivery) are C15/C14, "
         "here WriteWait simply is not enabled while the ring is full; that every committed packet is well-formed MQTT and Encode writes Len() bytes is C03 "
         "(Len()-vs-Encode() mismatch A2 belongs there); that no write bypasses wmu is C18.")

CLAIMS['C16'] = dict(category='proof', ref='5 Core F, 8 C16',
    text="Lean 4 theorems (30), for ALL initial buffer states, traffic, schedules of thread steps and interleaved environment events (peer closes / stops "
         "reading / keep-alive fires / the connection a delivery is addressed to blocks / Server.Close), over a small-step model of one connection's "
         "life-cycle at ring-call granularity (receiver, processor, sender, any number of stop() callers and of external writers; Model/Lifecycle.lean): "
         "invariants in every reachable state (C16_invariant); at most one stop() call past the CAS, effects unsubscribe / will-if-flag / delete-if-clean "
         "each at most once, in that order, only after the three goroutines have exited, complete at the end (C16_stop_once); an explicit natural-number "
         "rank strictly decreases with every thread step and is never raised by the environment, so no schedule takes more than rank(s) thread steps and "
         "fair round-robin reaches quiescence within rank(s) rounds (C16_teardown_bounded); from any reachable state in which the connection has ended "
         "round-robin ends in the complete teardown (goroutines exited, stop returned, effects complete) unless the processor is inside a delivery into "
         "ANOTHER connection that is still open, has stopped reading and is full - all that is left of the property's exemption (HeldUp = HeldByThird, "
         "C16_exemption_is_third_party; shown necessary by C16_exemption_needed) - and in such a state some thread can always step otherwise "
         "(C16_no_deadlock, C16_teardown_completes: the full statement with the property's exemption, no other exception since the repair of F3). "
         "The former second exemption - a connection whose processor is parked in its OWN outgoing ring behind its own "
         "non-reading client - is REMOVED by the repair b77088f (finding F7: the receiver closes the socket when its read has failed): in a state in "
         "which nothing can run such a connection has not ended (C16_self_held_not_ended), and once the receiver's read has failed - keep-alive deadline, "
         "peer close or reset, anything that puts the receiver past its loop - round-robin ends in the complete teardown or HeldByThird, the "
         "self-held state cannot intervene (C16_read_failure_completes); with the receiver before the repair the model wedges in exactly "
         "that state (closed counterexample C16_old_receiver_wedges: ended, quiescent, nothing torn down, no exemption applies). Once stop() has passed its CAS and no foreign delivery is blocked "
         "the teardown ALWAYS completes, and Server.Close (all outgoing rings closed first, then stop) returns (C16_stop_completes, C16_server_close); "
         "stop() never clears the ring pointers, no foreign writer dereferences nil, a delivery to a closed ring fails at once (C16_no_foreign_panic, "
         "C16_late_delivery_fails_fast). REPAIRED HERE (finding F3, repository commit 8f682d1: ReadFrom waits for one free byte instead of a whole 8 KiB "
         "read block and reads into the free contiguous part of the ring): a receiver inside its loop that cannot step is inside a socket read with the "
         "deadline armed and the peer's close noticeable, or faces a completely full, open incoming ring (C16_receiver_reads_while_room); when nothing can "
         "run and the processor waits for the rest of a packet that fits the ring, every byte the peer has sent is in the ring and a socket read is pending "
         "(C16_chunked_packet_completes); a packet of length <= ring size whose bytes are on the wire arrives under fair round-robin whatever the piece "
         "sizes (C16_chunked_packet_arrives); with the ReadFrom before the repair the model wedges - ended, quiescent, nothing torn down, three goroutines "
         "parked - and the repaired one tears the same state down, will included (closed C16_old_readfrom_wedges; the witness of F3 is a regression case "
         "on every run, and packets of every length up to the ring size in pieces are ordinary scenarios: conditions chunked, chunkwhole). At the level of "
         "the real ring: C15_ReadFrom_waits_only_when_full. Closed counterexamples: the model wedges with the ring before 584775d (D2), a writer panics with the stop() before e79396e (F1), stop() "
         "wedges when Wait precedes the Close calls, the sequential Server.Close before 08d14fb hangs (F6, found and repaired here), the receiver before "
         "b77088f leaves a self-held connection standing after a keep-alive expiry (F7). HALF-CLOSE: the socket of the model has a fourth state, peerShut - the peer has shut down its sending direction only: reads fail with end-of-stream, writes block while the peer does not read, as on an open socket -, so the receiver's conn.Close on a failed read is what the model needs to end a sender blocked towards such a peer: with a read pending at the half-close the teardown completes or is held by a third party (C16_halfclose_torn_down), without the receiver's close the same state wedges with two goroutines parked (closed C16_halfclose_needs_receiver_close); a half-close that meets a receiver parked for space in a completely full incoming ring is not noticed at all (closed C16_halfclose_unnoticed - the state of finding F8, for which C16_no_deadlock and C16_teardown_completes carry an explicit exception since the state exists in the model); scenarios `life run <cond> halfclose` through a broker-side pipe wrapper that can be half-closed; cause `badfull` (an illegal packet of exactly the ring size: the PROCESSOR ends the connection while the incoming ring is completely full and the receiver waits for room - only stop()'s in.Close() wakes it). The order of stop(), its "
         "guards, the deferred recovers, Done-then-stop, the processor loop, writeMessage's lock structure, Server.Close, the receiver's conn.Close-then-return "
         "after a failed ReadFrom and the ring's lock structure are "
         "regenerated from the source and tied by decide (C16_source_shape). Since the take-over repair a handshake may wait for a teardown that a third party holds (Server.disconnectClient); Server.Close, which ends that wait, needs Server.mu first: the regenerated statement order of disconnectClient has its explicit unlock before stop() and the wait, so Close gets the mutex at every point at which disconnectClient may be waiting (C16_disconnectClient_waits_without_mu, Properties/C16Source.lean; scenario `life takeover srvclose`: Server.Close returns while a take-over waits). Tied to the real broker by fault sequences (8 buffer conditions x 6 causes x "
         "order of ends, raw clients that stop reading; model stream = outcome of the model under fair round-robin, line equality). PARTIAL: bounded "
         "time = bounded number of own steps under weak fairness of the Go scheduler (trusted); socket semantics are parameters; the rings are abstracted "
         "to call level (RingA = bytes buffered + done, one atomic step per ring call, a waiting call = a step that is not enabled) - that contract is now DERIVED "
         "from the program-counter-level ring program of C14/C15 and cited formally: C16_ring_contract_is_C15 (every complete Write/WriteWait/WriteCommit, "
         "ReadWait/ReadPeek/ReadCommit, Close and ReadFrom iteration of Model/Ring, under any interleaving, answers what RingA.waitSpace/commitP/waitData/commitC/close "
         "answer on (pseq-cseq, done) at one own step of the call, has exactly that effect, and is parked at quiescence iff that function answers none), "
         "C16_ring_steps_use_ringA (each life-cycle ring step is enabled iff its RingA function answers), C16_out_ring_one_producer (wmu: the outgoing ring sees one "
         "producer at a time; for the code: C17_wrap_one_producer). The derivation found finding F9 (buffer.go tested done and the cursors at two "
         "statements of a wait loop: a producer woken by Close could still commit, ReadWait could answer end-of-stream with the bytes there), repaired by repository commit "
         "1e10a9b; with the repaired ring the contract is exact where the model needs it (consumer end-of-stream = RingA.waitData eof, producer waitForWriteSpace ok = "
         "RingA.waitSpace ok at ONE state; every producer call not past its last isDone test fails once done is set - the ring-level content of "
         "C16_late_delivery_fails_fast for calls in progress); Model/Lifecycle.lean needed no change. STILL NOT COVERED: Close between a committing call's last isDone "
         "test and its cursor store (C15_commit_window) - the model has no commit into a closed ring; nobody reads such bytes from an outgoing ring, on an incoming ring "
         "the commit races stop() (conclusions of the teardown theorems do not mention ring contents; NOTES-ringlife.md section 3); "
         "one connection is modelled, the broker around it is environment. OPEN (finding F8, "
         "with C19): 'ended' presupposes that the end can be noticed - a connection whose client has stopped reading and kept sending until BOTH rings are "
         "full has its receiver waiting because the incoming ring is completely full, no read pending, no deadline armed; keep-alive never fires on it (scenario selffull keepalive: "
         "token held-up-by-self, accepted only inside this known-finding class; NOTES-f7.md).",
    technique='machine-checked proof in Lean 4 (invariants + termination measure of a concurrent small-step program, for all schedules) + fault-sequence correspondence on the real broker')

CLAIMS['C14'] = dict(category='proof', ref='5 Core D, 8 C14',
    text="Lean 4 theorems over all thread programs and all schedules of the small-step model of service/buffer.go (one step per shared access, per byte copied; ReadFrom - repaired by 8f682d1 to wait for one free byte and read into the free contiguous part of the ring - modelled whole with an arbitrary reader script): safety invariant preserved by every step; the bytes the consumer obtained are exactly the source stream prefix and lie below the producer cursor; no producer step writes a cell of the consumer's uncommitted window; the slice ReadFrom hands its reader lies in [pseq, cseq+size) and its WriteCommit finds its space (C14_readfrom_slice_free); model tied to the code by schedules replayed on the real buffer (yield hooks; ReadFrom scheduled at its marks with less than a read block free), lock-structure facts by decide",
    technique='machine-checked proof in Lean 4 (invariants of a concurrent small-step program, for all schedules) + differential correspondence of schedules on the real buffer',
    note='Trusted: Lean kernel; axioms propext/Classical.choice/Quot.sound only; Go harness (model-guided scheduler at the verifYield marks) + line protocol + fact extractor; Go runtime semantics assumed by the model: sync.Mutex, sync.Cond, sequentially consistent atomics, scheduler fairness for liveness (see evidence.assumptions, NOTES-ring.md)')

CLAIMS['C15'] = dict(category='proof', ref='5 Core D, 8 C15',
    text='Lean 4 theorems over all programs and schedules of the repaired buffer: a mutex is held only inside its critical section (never by a returned thread), no lost wake-up (a parked waiter whose condition is met has a pending broadcaster), Close is a straight line of 7 own steps blocked only by a held mutex whose holder is enabled and releases within 4 steps, done exits every wait loop, a termination measure strictly decreasing with every enabled step (no livelock; at most mu(init) enabled steps in any schedule), and at quiescence every unfinished call waits legitimately (all returned once Close was called); ReadFrom (8f682d1) never hands its reader an empty slice, its WriteCommit never waits, and it is kept from reading only by a completely full, open ring (C15_ReadFrom_reads_nonempty, C15_ReadFrom_waits_only_when_full; before the repair: by less than a read block free, finding F3); AT CALL LEVEL (the contract the connection life-cycle model of C16 is built on, derived here): through absRing = (pseq - cseq, done) every step of the program is RingA.commitP (+n, producer only, buf+n <= cap before it), RingA.commitC (-n, consumer only, n <= buf), RingA.close, or invisible (C15_step_refines_ringA, C15_single_writer); a complete Write/WriteWait/WriteCommit resp. ReadWait/ReadPeek/ReadCommit resp. Close, from call to return under ANY interleaving, has the outcome and the net effect of the corresponding RingA function at one own step - ok only if the ring was open when the call started and (producer) exactly l bytes are committed with buf+l <= cap at that step, end-of-stream only with done set, ErrBufferFull iff the request exceeds the ring - and at quiescence the call is unfinished iff it is parked and that function answers none (C15_call_refines_ringA_producer, _consumer, _close, C15_parked_iff_guard_false); one iteration of ReadFrom is wait-for-one-byte / read at most cap-buf / commit that fits / exit through its deferred Close (C15_readfrom_refines_ringA). EXACT since the repair of finding F9 (repository commit 1e10a9b; found by this derivation, reproduced on the real buffer through the yield hooks, corpus/ring/f9-*.ops): buffer.go tested done and the cursor of the other side at two statements of every wait loop, so a producer woken by Close that found room committed and returned success after Close had returned, and Read/ReadPeek/ReadWait answered end-of-stream with the awaited bytes buffered (closed executions of the program before the repair, and the repaired program on the same schedules: C15_old_ring_late_commit, C15_old_ring_eof_with_data); now the end-of-stream answer of a consumer IS RingA.waitData = eof and the successful waitForWriteSpace of a producer IS RingA.waitSpace = ok on (pseq-cseq, done) of ONE state of the call, and once done is set every producer call that has not passed its last isDone test - not begun, parked, woken, in progress - fails (part (2) of C15_call_refines_ringA_producer: the letter of "Close makes every blocked or later call return with end-of-stream"; the specification stream and the oracle were tightened to that letter first: Spec.Ring.eofOk/doomed). LEFT, named and exhibited (C15_commit_window, closed execution of the repaired program): a committing call stores the cursor a few statements after that last test (Write: after its byte copy); Close in between lets the commit land in a closed ring - closing that window needs the done store and (test + store) under one mutex, a different locking scheme; scheduler fairness is the remaining hypothesis; tie as C14 with the lock probe compared after every step and a fair finish phase (Close, later calls) on the real buffer',
    technique='machine-checked proof in Lean 4 (invariants of a concurrent small-step program, for all schedules) + differential correspondence of schedules on the real buffer',
    note='Trusted: Lean kernel; axioms propext/Classical.choice/Quot.sound only; Go harness (model-guided scheduler at the verifYield marks) + line protocol + fact extractor; Go runtime semantics assumed by the model: sync.Mutex, sync.Cond, sequentially consistent atomics, scheduler fairness for liveness (see evidence.assumptions, NOTES-ring.md)')
CLAIMS['C18'] = dict(category='other', ref='5 Core G, 8 C18',
    text="WEAKEST CLAIM OF THE DESIGN - a proof about abstract traces plus a decidable check of an extracted table, tied to the compiled "
         "program only by a lexical extractor. Proved in Lean 4: disciplined_trace_race_free (for ALL well-formed traces of "
         "lock/unlock/RLock/RUnlock/read/write/atomic/fork/join/WaitGroup events - any length, any number of goroutines - a trace in which "
         "every access is atomic on an all-atomic location, or made under the location's guard (exclusively for writes), or ordered by "
         "fork/join (initialisation before publication, tear-down after the end), or a read of a location written only in those phases, "
         "has no data race in the sense of the Go memory model), with non-vacuity examples (a disciplined trace, a racy one that violates "
         "the discipline). The go/ast extractor regenerates on every run the ACCESS TABLE of the guarded state (MemTopics and its tries, "
         "Ackqueue, Session, MemProvider, Server.svcs, service.conn/in/out/outtmp, the traffic counters, package-level variables written "
         "after init): every `recv.field` access with the mutexes lexically held, helper functions judged by the meet over all their call "
         "sites, references copied out of guarded structs. C18_table_disciplined_except_findings (by decide): every row obeys the "
         "hand-written expectation guardOf EXCEPT the three rows of the ordering class O-teardown "
         "(Session.Cmsg/Will accessed without Session.mu by the processor and by stop() of the ONE connection that serves the session: ordered by stop()'s wgStopped.Wait - join - and, against Session.Update/Init of the client's next connection, by the session take-over - `stopped` channel received under Server.connectMu before getSession, goroutines forked afterwards; these rows were the open finding G5 until the take-over was implemented, no finding is open); a removed lock, an access "
         "moved out of its critical section or a new unguarded accessor breaks it. C18_escapes_recorded: the only reference leaving a "
         "critical section is the recorded one (assumption A-acked: Acked returns its internal slice). "
         "C18_conforming_trace_race_free: a trace generated by the table is race-free on every covered location class; "
         "C18_uncovered_are_recorded lists the classes left out. Repaired in the repository (fix: commits) and no longer excused: G1 (Retained handed out pointers "
         "into storage that Retain rewrites in place; now deep copies made under rmu, so the escaping references are gone from the table), "
         "G4 (the provider registries of topics/sessions/auth, written by every Client.Connect and client stop with no lock; now under a "
         "package-level RWMutex each, which the extractor records and guardOf demands - the registries are covered classes now: "
         "C18_core_state_covered), G2 (stop "
         "cleared conn/in/out read elsewhere: nil dereference in writeMessage), G3 (Close/Count paths ignored the mutexes), G6 (traffic "
         "counters read plainly), Session.ID, and getSession's unlocked read of Cmsg (nil while a concurrent CONNECT with the same client id "
         "has created but not initialised the session: nil-pointer panic in the unrecovered accept goroutine, ending the broker). NOT proved: that the program's executions are traces generated by the table (no aliasing, no "
         "reflection, closures by lexical position, trie-node ownership assumed); the check decides 'a lock was removed / an access left its "
         "lock / a new unguarded accessor appeared', not arbitrary races. The Go race detector drives the real broker concurrently (raw "
         "clients, session take-over, library clients, Server.Close, in-process Publish/Subscribe) to validate the table on the unchanged "
         "tree - every report must belong to an open finding, and there is none: a report with the signature of a repaired finding, G5 included, is a regression - and as the search when the table theorem breaks; it is never the proof.",
    technique="Lean 4 proof over abstract synchronisation traces + decidable check of a regenerated (go/ast) access table; Go race detector as search and table validation",
    note="Trusted: Lean kernel (axioms propext/Classical.choice/Quot.sound only); the lexical extractor extract/facts_locks.go IS the "
         "translator from the program to the table and is not verified; the hand-written expectation table and exception list in "
         "lean/Mqtt/Proofs/LocksTable.lean; the Go memory model as formalised in lean/Mqtt/Spec/Locks.lean; the race workload and report parser")

CLAIMS['C03'] = dict(category='proof', ref='5 Core A, 8 C03',
    text='Lean 4 theorems about the code-shaped model of package message, for all messages / byte strings / counter values: encode_len (Encode writes exactly Len() bytes, every message object), encode_is_wire + decode_encode + encode_succeeds for every message built from Type.New() by setter calls (bytes = MQTT 3.1.1 reference encoding of the fields; decoding them gives equal fields; a well-formed field record is never refused), encode_decode_canonical (every accepted byte string re-encodes to exactly its first n bytes, Len() = n), auto_id_nonzero / auto_id_lt / auto_id_in_packet (all 2^64 counter values). Reachable messages = Type.New() OR the result of a successful Decode of any byte string, closed under all 25 setters (what the broker does to every forwarded PUBLISH: SetQoS/SetRetain/SetDup/SetPacketID write through aliases into the decode buffer while the object is not dirty), all 14 types: C03_reachable_shape, C03_reachable_encode_len, C03_reachable_encode_succeeds, C03_reachable_dirty_encode_is_wire (once dirty, whatever it was decoded from), and C03_reachable_encode_is_wire_partial / C03_reachable_decode_encode_partial for every run that is not Excluded (decidable: the decoder input was not the reference encoding of the fields it returned AND no setter has marked the object dirty since). With the weaker reading `Wire.Encodes` (type/flags byte, ANY one- to four-byte form of the remaining length that section 2.2.3 reads back as the body length, body - MQTT 3.1.1 does not require the shortest form): C03_reachable_encode_is_encoding_partial covers every run that is not ExcludedV (decidable: the input was not even such an encoding of the returned fields AND the object is still clean), i.e. the in-place path for every remaining-length form a client may use; a clean object keeps the remaining-length bytes of its input, a dirty one gets the shortest form; C03_reachable_decode_encode_encoding_partial (round trip for the same runs: decoding the bytes written gives equal fields, whatever form of the remaining length the decoded input used); C03_excludedV_excluded (ExcludedV leaves out fewer runs than Excluded); C03_reachable_encode_is_encoding_counterexample (the leniently accepted CONNECT is all that remains). The unrestricted statement is false of the code: C03_reachable_encode_is_wire_counterexample (closed terms, reproduced on the real code with `codec build 3 from=32870000016100076869 qos=2 ret=1 dup=1 id=9` -> 3d870000016100096869: a remaining length written with two bytes is kept; and `codec build 1 from=100d00044d51545404820000000161`: a CONNECT whose user-name flag announces a missing field is re-emitted as it came). Model tied to message/*.go by differential runs (real code vs model vs reference codec written from the specification; `codec build from=` = decoded-then-modified messages) and regenerated facts. PARTIAL: what stays excluded in both statements is a clean object whose input was not an encoding of the returned fields in any remaining-length form (the CONNECT whose user-name/password flag announces a missing field, accepted leniently): correspondence-checked only; that every other accepted input is such an encoding (byte-exactness of the decoders), and hence that ExcludedV names exactly the failing runs, is shown by witnesses and the differential runs, not proved.',
    technique='machine-checked proof in Lean 4 + differential correspondence to the Go code (real code vs code-shaped model vs MQTT 3.1.1 reference codec)',
    note='Trusted: Lean kernel; axioms propext/Classical.choice/Quot.sound only; Go harness + line protocol + fact extractor; Go runtime semantics assumed by the model (see evidence.assumptions)')

CLAIMS['C04'] = dict(category='proof', ref='5 Core A, 8 C04',
    text='Lean 4 theorems about the code-shaped model of the 14 decoders, for every type number and every byte string (cap = len): decode_total (never a panic / out-of-bounds access), decode_count_le, C04_error_count_le (the byte count returned together with an error - modelled by decodeNewErrN, the positions of the error returns - is never larger than the input), decode_fields_inside (every returned field is src[off:off+len] with off+len <= n), decode_keeps_packet, decode_accepts_wf (every well-formed MQTT 3.1.1 packet, followed by anything, is accepted with exactly its fields and length) and C04_decode_accepts_wf_any_length (the same for every permitted one- to four-byte form of the remaining length, not only the shortest). Reference decoder of the specification: C04_reference_decoder_complete (Wire.decode accepts the reference encoding of every well-formed packet of all 14 types, followed by anything), C04_reference_decoder_inverse (with soundness: it answers (p, n) exactly when the first n bytes are the reference encoding of the well-formed p of the requested type), C04_decode_agrees_with_reference (whatever the reference decoder accepts the library decoder accepts with the same count and fields). Model tied to message/*.go by differential runs under recover (malformed stream, truncation at every offset, exhaustive small inputs; error returns are compared including their count, `err n=<count>`) and regenerated facts. PARTIAL: the error count is tied by the differential runs only (header.decode is translated, but its tie theorem does not state the count of error returns).',
    technique='machine-checked proof in Lean 4 + differential correspondence to the Go code (real code vs code-shaped model vs MQTT 3.1.1 reference codec)',
    note='Trusted: Lean kernel; axioms propext/Classical.choice/Quot.sound only; Go harness + line protocol + fact extractor; Go runtime semantics assumed by the model (see evidence.assumptions)')

CLAIMS['C12'] = dict(category='proof', ref='8 C12', text=_CLIENT_TEXT % (
    "Theorems (57, all histories / all reachable states; every history may contain acknowledgements that arrive before the sending call has "
    "registered its request - no such exclusion is left since the repair of E5, 346378d): PUBREC answered by exactly PUBREL (C12_pubrec_pubrel); QoS 0 completes in the sending step "
    "(C12_qos0_completes_at_once); per-queue conservation and exactly-once FIFO completion (C12_queue_conservation, C12_exactly_once_fifo), a terminal ack "
    "fires exactly the longest terminal prefix, never before a request's own terminal ack, eagerly (C12_completion_timing, C12_completion_no_later, "
    "C12_terminal_only_by_own_ack, C12_release_eager); pings, any number outstanding: every completion exactly once in call order, the n-th PINGRESP "
    "completes the n-th Ping (C12_ping_exactly_once_fifo, C12_ping_completion_timing, C12_two_pings_both_complete); the acknowledgement inside the "
    "window: the composite event is, in every state, the call followed by the packet (C12_early_ack_is_call_then_ack), a request completes exactly once "
    "and leaves its queue whether its terminal acknowledgement is processed after the call returned or arrives inside the window (C12_completes_on_ack, "
    "C12_early_ack_completes = the E5 witness), an early PINGRESP shifts no later ping completion (C12_early_pingresp_no_shift); WHY the acknowledgement "
    "waits: small-step model of the two critical sections of service.ackmu (Model/AckLock.lean: any number of senders Lock-write-[window]-Wait-Unlock, "
    "processor Lock-Ack-Unlock-callbacks, peer sending anything at any time) - for every schedule no Ack falls between the write and the registration of "
    "its request, an acknowledgement sent after the write finds the request, completions run outside the mutex (C12_ack_waits_for_registration, "
    "C12_ack_critical_sections); without the mutex, or with Wait after Unlock, the acknowledgement is lost (C12_ack_window_unlocked_counterexample, "
    "C12_ack_wait_outside_counterexample); the two programs are the source's: which functions take ackmu around which calls is regenerated from "
    "service.go/process.go on every run and proved equal to the model's programs by decide (C12_ack_lock_structure_is_source); identifiers: the client model assigns as message.nextPacketID does since repair A2 "
    "(0 skipped, counter +2 at the wrap; tied by correspondence episodes that start the process-wide counter just before a 16-bit wrap, also at 2^64-1, with requests in flight): no event in no state writes a request "
    "with identifier 0 and identifiers in flight are non-zero, no counter hypothesis (C12_identifier_nonzero, C12_identifier_nonzero_call, C12_inflight_ids_nonzero, C12_next_identifier, C12_written_identifier); "
    "exactly-once FIFO completion now covers library-assigned identifiers (hypothesis FreshA, weaker than Fresh: C12_fresh_implies_freshA); pairwise distinct: within each ack queue always (C12_queue_ids_distinct, because "
    "Wait drops a duplicate registration); for the requests as written, over all four queues of the connection, a call keeps the identifiers in flight pairwise distinct and gets registered IFF the identifier it writes "
    "is not in flight (C12_distinct_step_iff, C12_clear_step), which holds along every history - other connections drawing from the process-wide counter in between - in which caller-supplied identifiers are not in flight, "
    "library-assigned ones are not caller-supplied ones in flight, and fewer than 65535 identifiers are drawn process-wide while a library-numbered request stays in flight (C12_inflight_ids_distinct_partial, C12_window_in_draws); "
    "the unrestricted claim is false of the code - the counter is a blind 16-bit cycle - with closed counterexamples (C12_inflight_ids_distinct_counterexample: caller-supplied 1 then library-assigned 1, second completion never fires; "
    "one request in flight across 65535 draws); refinement of the reference client event by event on admitted histories (C12_refines_spec_partial/_step) with closed "
    "counterexamples showing every excluded class is needed (B3, late PUBREC, SUBACK code, auto id); acknowledgements inside the window, several outstanding pings and "
    "overlapping filters within one Subscribe request are admitted (C12_refines_spec_early_acks, C12_refines_spec_pings, C12_refines_spec_overlapping_filters; E5 - an "
    "acknowledgement processed before the registration was dropped -, the single ping slot and "
    "E9 - one callback invocation per matching filter - were repaired, their witnesses are regression cases); the ack queues of the client model are sessions.Ackqueue: "
    "for each of Pub1ack, Pub2out, Pub2in, Suback, Unsuback and for Pingack, for every history of wait/ack/acked operations and for every history of client events, the list the model holds and the "
    "requests it releases are the projection of the abstraction of the ring-based Ackqueue model driven by the corresponding Wait/Ack/Acked calls (C12_queue_is_ackqueue, C12_pings_are_ackqueue, "
    "C12_client_queues_are_ackqueues, C12_queue_ops; composed with C13_refines; the bytes of request and acknowledgement and the OnComplete value enter as a parameter, the way back through Decode "
    "under a named round-trip hypothesis: C12_queue_decodes). The generator puts acknowledgements into "
    "the window of publish, subscribe, unsubscribe and ping calls in every episode (own acknowledgement, that of an older request, PINGRESP with several pings outstanding).") +
    " PARTIAL: timing ('promptly') is not modelled; the step granularity of a sending call is {write, register} as delimited by the hook; the small-step "
    "model of ackmu abstracts the ack queue to one registered-flag per request and is tied to the source lexically (call order inside the five functions), "
    "not by execution; absence of deadlock under full buffers is argued in NOTES-e5.md, not proved.")
CLAIMS['C20'] = dict(category='proof', ref='8 C20', text=_CLIENT_TEXT % (
    "Theorems (10): Connect succeeds iff CONNACK code 0, returns the refusal code otherwise, and changes nothing in every non-success case (C20_connect); "
    "an inbound QoS 2 PUBLISH is not dispatched at PUBLISH time, duplicates are suppressed, it is dispatched once at PUBREL in FIFO order "
    "(C20_qos2_*); after the SUBACK a message invokes the request's callback exactly once iff a granted filter matches under section 4.7, however many "
    "of the request's filters match it (C20_dispatch, C20_dispatch_qos2, C20_dispatch_overlapping_once; the invocation carries the highest QoS the matching "
    "filters allow, independent of Go map order: C20_dispatch_highest_qos; E9 was repaired, its witness is a regression case); after "
    "the UNSUBACK a callback held only under listed filters is never invoked again and any other callback exactly once per matching message (C20_unsubscribe_stops). "
    "A SUBACK/UNSUBACK that arrives before Subscribe/Unsubscribe has registered its request completes it like any other (E5 repaired, 346378d; theorems under C12, "
    "exercised by the early ops of the client generator).") +
    " PARTIAL: 'without leaving goroutines behind' and real sockets/timeouts are runtime facts outside the model (the harness observes Connect results only).")

CLAIMS['C05'] = dict(category='proof', ref='5 Core A/E/F, 8 C05',
    text="Lean 4 theorems (15) over EVERY byte stream (List UInt8, no length bound), every ring size, every broker state and every connection id, about "
         "code-shaped models tied to the Go code by differential runs and regenerated facts. (i) C05_decode_total: Type.New()+Decode, as peekMessage and "
         "getConnectMessage call it, never panics (corollary of C04). (ii) C05_framing_total_pre / _post / C05_framing_outcomes, on Model/Framing "
         "(getMessageBuffer + getConnectMessage before CONNECT; peekMessageSize + peekMessage after it; a panic is an explicit outcome, proved unreachable): "
         "framing ends in packet | needMore | closeThis, consumes only a prefix of that connection's stream (the decoder sees exactly stream.take n), and "
         "every allocation is bounded - before CONNECT by 1+4+268435455 bytes (what four length bytes can announce: the limits l>4 / cnt from 2 to 5 are "
         "regenerated from the source and tied by decide, C05_facts), after it by the ring size. (iii) isolation on the broker model: an event of connection A "
         "(accepted or refused first packet, any packet, its end) leaves every other connection's table entry and liveness (C05_other_connections_untouched) "
         "and every session object not served to / resumed by A (C05_other_sessions_untouched, under the proved invariant) exactly as they were; it emits only "
         "packets to A, the close of A and fan-out items - never `closed B`, never anything but a PUBLISH with RETAIN=0 to another connection (C05_outputs); "
         "events carrying no application message emit to A alone (C05_quiet_events_reach_nobody); a QoS 0/1 PUBLISH / PUBREL / abnormal end emit exactly the "
         "onPublish fan-out of the message / released messages / will that C01, C08, C09 characterise (C05_publish_is_fanout, C05_end_is_will_fanout); no "
         "QoS 1/2 PUBLISH without packet identifier is passed on (C05_forwarded_publish_has_id; finding E11, repaired). (iv) lifting: any sequence of events of "
         "A, its end included, never closes B and never changes B's entry (C05_events_never_close_others); a byte stream on A is, through the framing model, "
         "packets of A followed by at most one end of A, last, and the first packet is one `first` event (C05_stream_is_events_of_A, with the model's packet "
         "bound shown irrelevant); combined for every first stream, later stream, cut and teardown: C05_bytes_hurt_nobody_else. Non-vacuity examples by decide. "
         "Tie: the real broker over net.Pipe with new events rawfirst/raw/race (arbitrary bytes as first thing / on an accepted connection / racing another "
         "connection's publishes); attacker streams from valid packets of all 14 types by truncation at every offset, corrupted and non-minimal length "
         "fields, 5-byte varints, reserved types, lengths above the ring and up to 268 MB announced but never sent, random bytes, packets split across events; a "
         "witness subscriber/publisher pair whose traffic the reference broker checks exactly on every line (PINGREQ barriers prove the witnesses alive); a "
         "dying broker process is a crashed stream = violation with replay; the implementation runs under GOMEMLIMIT and an address-space cap. "
         "PARTIAL: a real panic, out-of-memory or goroutine death is a runtime event - the models represent them only as explicit outcomes of the steps they "
         "contain (decoders, framing functions) and cannot exhibit one in code they do not model (logging, TLS, the websocket bridge, the Go runtime); "
         "the broker model takes one event as one atomic step, so 'all timings of the teardown relative to publishes' is covered by event order in the theorems "
         "and by the race event (unserialised writes) plus the C16/C18 checks on the real code, not by a theorem about interleavings; the byte-to-event "
         "translation is shared by the model and the reference stream (what the decoders accept is C03/C04). Packets that need the last 8 KiB read block of the "
         "ring (ring size - 8 KiB < length <= ring size), whole or split across events, are ordinary generator cases since the repair of F3 (8f682d1; "
         "before it they could wedge their own connection, C16).",
    technique='machine-checked proof in Lean 4 (framing totality and bounds over all byte streams; isolation and lifting on the sequential broker model) + differential correspondence of byte streams on the real broker (real code vs code-shaped model vs reference broker)',
    note='Trusted: Lean kernel; axioms propext/Classical.choice/Quot.sound only; Go harness (raw clients over net.Pipe, PINGREQ barriers, frame scanner used only to know when to wait) + line protocol + fact extractor; Go runtime semantics assumed by the models (slices, append, binary.Uvarint, net.Conn reads, recover); see evidence.assumptions')

# ---- source tie by translation (extract/cmd/xlate, NOTES-xlate.md) ---------------------------------
_XL = (" Source tie by translation: on every run the Go-subset translator extract/cmd/xlate regenerates Lean definitions of "
       "whitelisted functions from the Go source (Generated/Xlate.lean) and theorems state that they equal the model functions: %s "
       "A change of such a function breaks the equality proof; a rewrite the translator cannot read is a broken obligation of the properties built from that function (NOTES-xlate.md, BUILDING.md).")
_XLATE_TIES = {
 'C03': "header.msglen/Len/SetRemainingLength, msglen() and Len() of every message type, the standard library's binary.PutUvarint, "
        "ValidQos/ValidTopic/ValidVersion/SupportedVersions/Type.Valid/Type.DefaultFlags/ConnackCode.Valid/ValidConnackError "
        "(C03_header_msglen_is_source, C03_SetRemainingLength_is_source, C03_Len_is_source_<type>, C03_msglen_is_source, "
        "C03_PutUvarint_is_source, C03_validators_are_source; PUBLISH under the hypothesis that the type/flags byte exists: "
        "C03_Len_is_source_publish_partial), header.Type and header.encode against the model's Hdr.type / Hdr.encode "
        "(C03_header_Type_is_source, C03_header_encode_is_source_partial: type/flags byte present, remaining length not negative).",
 'C04': "the standard library's binary.Uvarint, as found in the toolchain that builds the library, equals the model's uvarint on every "
        "byte string (C04_Uvarint_is_source); header.decode equals the model's Hdr.decode on every byte string for a header whose "
        "type/flags slice holds at most one byte (C04_header_decode_is_source_partial; the model's alias flag has no counterpart).",
 'C05': "service.peekMessageSize equals the framing model's peekMessageSize for every ring size and stream, with the ring's ReadWait as "
        "an argument of the translation (C05_peekMessageSize_is_source, C05_peekMessageSize_no_ring).",
 'C06': "nextTopicLevel, checkTopic and ValidQos equal the model's level splitter and entry tests on every input "
        "(C06_nextTopicLevel_is_source, C06_checkTopic_is_source, C06_ValidQos_is_source).",
 'C13': "every method of sessions.Ackqueue against the model's Q through an abstraction that forgets integer widths and the scratch "
        "slice (C13_helpers_are_source, C13_newAckqueue_is_source, C13_grow_is_source, C13_removeHead_is_source, C13_insert_is_source, "
        "C13_Wait_is_source_partial, C13_Wait_ping_is_source, C13_Ack_is_source_partial, C13_Ack_ping_is_source, C13_Ack_other_is_source, "
        "C13_Acked_is_source), with message.Message abstracted to the results of the methods the queue calls; partial where the model "
        "is more abstract: the entry type is taken from the message's dynamic type (equal to msg.Type() for messages made by "
        "New...Message()/Decode), and Ack's result when Encode of the acknowledgement fails.",
 'C14': "powerOfTwo64, roundUpPowerOfTwo64 (least power of two >= n for 0 < n <= 2^62; signed overflow is not represented), the index "
        "mask pos & (size-1) and ringCopy against the ring model's size = 2^k, idx and byte-by-byte copy (C14_powerOfTwo64_is_source, "
        "C14_roundUpPowerOfTwo64_partial, C14_idx_is_source, C14_ringCopy_is_source); the ring operations themselves (condition "
        "variables, atomics) are outside the translator's subset.",
}
for _k, _t in _XLATE_TIES.items():
    CLAIMS[_k]['text'] = CLAIMS[_k]['text'] + _XL % _t
