HOOK_COMMITS = ["cbdc291"]
NOT_APPLICABLE = {}
CLAIMS = {
 'C13': dict(category='proof', ref='5 Core C, 8 C13',
   text="Lean 4 theorems over all operation histories: the code-shaped ring+index-map queue refines a FIFO list (C13_refines), "
        "exactly-once FIFO hand-back with byte-identical requests (C13_exactly_once_fifo), release only when terminal and eagerly "
        "(C13_released_terminal, C13_release_eager), unknown acks are no-ops; the regenerated switch tables equal the protocol's "
        "(C13_tables_are_protocol); model tied to sessions/ackqueue.go by differential runs (real code vs model vs specification)"),
 'C06': dict(category='exploration', ref='5 Core B, 8 C06',
   text="Code-shaped Lean model of the tries and nextTopicLevel, tied to topics/memtopics.go by differential runs, and compared with a "
        "section-4.7 specification written from the standard: exhaustive over all filter x name pairs of up to 3 (quick) / 4 (thorough) "
        "levels over {a,b,'',+,#} plus random histories. Theorems so far cover only the leaf update (C06_resubscribe_replaces); the "
        "trie characterisation theorems (smatch_char, store_refines) are under construction, hence the level is not yet 'proof'. "
        "Known findings B3 (empty levels, pinned by tests) and B4 ('$' below the first level) are replayed on every run",
   technique="Lean 4 executable model + specification, differential correspondence and exhaustive small-scope sweep; proofs in progress"),
}
