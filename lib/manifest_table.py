HOOK_COMMITS = ["cbdc291"]
NOT_APPLICABLE = {}
CLAIMS = {
 'C13': dict(category='proof', ref='5 Core C, 8 C13',
   text="Lean 4 theorems over all operation histories: the code-shaped ring+index-map queue refines a FIFO list (C13_refines), "
        "exactly-once FIFO hand-back with byte-identical requests (C13_exactly_once_fifo), release only when terminal and eagerly "
        "(C13_released_terminal, C13_release_eager), unknown acks are no-ops; the regenerated switch tables equal the protocol's "
        "(C13_tables_are_protocol); model tied to sessions/ackqueue.go by differential runs (real code vs model vs specification)"),
 'C06': dict(category='proof', ref='5 Core B, 8 C06',
   text="Lean 4 theorems over ALL tries, histories and names (no bounds), about the code-shaped model of topics/memtopics.go that the "
        "differential runs tie to the Go code: C06_smatch_char (smatch returns, up to map order, exactly the trie entries whose path "
        "the name walk selects, each with min(publish QoS, subscription QoS)); C06_walk_eq_spec (that walk IS section-4.7 matching on "
        "level lists); C06_sinsert_refines / C06_sremove_refines / C06_pruned_preserved (insert replaces-or-adds one entry, remove "
        "deletes exactly one, failed walks change no entry, unique-key and pruning invariants kept); C06_levels_spec (the byte state "
        "machine nextTopicLevel computes the specification's split and accepts exactly the valid filters); C06_store_refines and "
        "C06_subscribers_partial (after any history the trie holds exactly the abstract store's subscriptions and Subscribers answers as "
        "the specification does); C06_invalid_filter_rejected; for retained messages C06_rmatch_char, C06_rwalk_eq_spec, "
        "C06_retained_trie_refines, C06_retained_pruned_preserved, C06_retained_store_refines, C06_retained_partial. PARTIAL: the "
        "history/levels theorems carry the decidable hypothesis 'no empty level and no $-led level in any topic argument' (and retained "
        "topics are valid names) - exactly the open findings B3 (empty levels, pinned by the suite) and B4 ('$' below the first level); "
        "the unrestricted statements are kept next to proved counterexamples (C06_subscribers_full_counterexample, "
        "C06_retained_full_counterexample, C06_levels_counterexample_empty_level, C06_levels_counterexample_dollar_level) and the "
        "deviant inputs are replayed on the real code on every run. Exhaustive sweep of all filter x name pairs up to 3/4 levels over "
        "{a,b,'',+,#} and random histories tie model, code and specification"),
}

_BROKER_TEXT = ("Sequential Lean model of the broker (handleConnection/getSession/processIncoming/stop, over decoded packets) tied to "
                "the real service.Server by differential runs over net.Pipe with PINGREQ barriers, and compared event by event with "
                "a reference broker written from MQTT 3.1.1 and the property text (oracle: membership where the property leaves a "
                "choice). %s Schedules are represented only by event order (one event = one atomic step; that atomicity rests on the "
                "lock discipline of C18).")
_BROKER = {
 'C01': "Theorems: under construction (fan-out characterisation over the C06 trie theorems).",
 'C02': "Theorems: under construction (QoS 1/2 receiver flows, FIFO hand-over of QoS 2).",
 'C07': "Theorems: under construction (one SUBACK/UNSUBACK per request, codes per filter).",
 'C08': "Theorems: under construction (retained store = last non-empty retained publish; delivery after SUBACK).",
 'C09': "Theorems: under construction (will published exactly once on abnormal end, never after DISCONNECT, from the current CONNECT).",
 'C10': "Theorems: under construction (SessionPresent, clean-session discard, resubscription).",
 'C11': "Theorems: under construction (CONNACK table; refused first packets leave the state unchanged).",
}
for _k, _t in _BROKER.items():
    CLAIMS[_k] = dict(category='exploration', ref='5 Core E, 8 ' + _k, text=_BROKER_TEXT % _t,
                      technique="Lean 4 executable model + reference specification, differential correspondence to the real broker; proofs in progress")

CLAIMS['C19'] = dict(category='proof', ref='8 C19',
    text="Lean theorems over the regenerated deadline expression and constants: for every keep-alive K>0 the read deadline d(K) satisfies "
         "K < d(K) <= 1.5K (C19_deadline_window), a CONNECT keep-alive of 0 still yields a positive effective value (C19_effective_pos), "
         "and on the receiver's timed state machine (deadline re-armed at every read) a client whose packets arrive less than K apart is "
         "never timed out whatever the read delays (C19_active_never_dropped) while a silent one is timed out at most 1.5K after the "
         "pending read was armed (C19_silent_dropped); PINGREQ is answered by exactly one PINGRESP (C19_pingreq_pingresp); the source "
         "still has the shape the model assumes (C19_source_shape, regenerated). Tied to the real broker by timed scenarios (K=1,2 s: "
         "silent from start, pinging, publishing, interval above the deadline) with a will witness. PARTIAL: real time, timers and "
         "scheduler latency are trusted, not modelled.")

_CLIENT_TEXT = ("Sequential Lean model of the client role (Connect, publish/subscribe/unsubscribe/ping with their completion wrappers, "
                "processIncoming as a client) tied to the real service.Client by differential runs against a scripted TCP peer (PINGREQ "
                "barrier from the peer; the ack-before-registration interleaving is forced through the verif ack-window hook), and "
                "compared event by event with a reference client written from MQTT 3.1.1 and the property text. %s")
CLAIMS['C12'] = dict(category='exploration', ref='8 C12', text=_CLIENT_TEXT % "Theorems: under construction. Known findings E5 (ack processed before registration is lost), single ping slot, replayed on every run.",
                     technique="Lean 4 executable model + reference specification, differential correspondence with forced interleaving; proofs in progress")
CLAIMS['C20'] = dict(category='exploration', ref='8 C20', text=_CLIENT_TEXT % "Theorems: under construction. Known finding E9 (callback invoked once per matching filter of one request) replayed on every run.",
                     technique="Lean 4 executable model + reference specification, differential correspondence; proofs in progress")

CLAIMS['C18'] = dict(category='other', ref='5 Core G, 8 C18',
    text="WEAKEST CLAIM OF THE DESIGN - a proof about abstract traces plus a decidable check of an extracted table, tied to the compiled "
         "program only by a lexical extractor. Proved in Lean 4: disciplined_trace_race_free (for ALL well-formed traces of "
         "lock/unlock/RLock/RUnlock/read/write/atomic/fork/join/WaitGroup events - any length, any number of goroutines - a trace in which "
         "every access is atomic on an all-atomic location, or made under the location's guard (exclusively for writes), or ordered by "
         "fork/join (initialisation before publication, tear-down after the end), or a read of a location written only in those phases, "
         "has no data race in the sense of the Go memory model), with non-vacuity examples (a disciplined trace, a racy one that violates "
         "the discipline). The go/ast extractor regenerates on every run the ACCESS TABLE of the guarded state (MemTopics and its tries, "
         "Ackqueue, Session, MemProvider, Server.svcs, service.conn/in/out/outtmp, the traffic counters, package-level variables written "
         "after init): every `recv.field` access with the mutexes lexically held, helper functions judged by the meet over all their call "
         "sites, references copied out of guarded structs. C18_table_disciplined_except_findings (by decide): every row obeys the "
         "hand-written expectation guardOf EXCEPT the rows of the open findings G4 (provider registries written by every Client.Connect) and "
         "G5 (Session.Cmsg/Will read by package service without Session.mu while a resumed session rewrites them); a removed lock, an access "
         "moved out of its critical section or a new unguarded accessor breaks it. C18_escapes_recorded: the only references leaving a "
         "critical section are the recorded ones (G1: Retained hands out pointers into storage that Retain rewrites in place - open). "
         "C18_conforming_trace_race_free: a trace generated by the table is race-free on every covered location class; "
         "C18_uncovered_are_recorded lists the classes left out. Repaired in the repository (fix: commits) and no longer excused: G2 (stop "
         "cleared conn/in/out read elsewhere: nil dereference in writeMessage), G3 (Close/Count paths ignored the mutexes), G6 (traffic "
         "counters read plainly), Session.ID, and getSession's unlocked read of Cmsg (nil while a concurrent CONNECT with the same client id "
         "has created but not initialised the session: nil-pointer panic in the unrecovered accept goroutine, ending the broker). NOT proved: that the program's executions are traces generated by the table (no aliasing, no "
         "reflection, closures by lexical position, trie-node ownership assumed); the check decides 'a lock was removed / an access left its "
         "lock / a new unguarded accessor appeared', not arbitrary races. The Go race detector drives the real broker concurrently (raw "
         "clients, session take-over, library clients, Server.Close, in-process Publish/Subscribe) to validate the table on the unchanged "
         "tree - every report must belong to an open finding - and as the search when the table theorem breaks; it is never the proof.",
    technique="Lean 4 proof over abstract synchronisation traces + decidable check of a regenerated (go/ast) access table; Go race detector as search and table validation",
    note="Trusted: Lean kernel (axioms propext/Classical.choice/Quot.sound only); the lexical extractor extract/facts_locks.go IS the "
         "translator from the program to the table and is not verified; the hand-written expectation table and exception list in "
         "lean/Mqtt/Proofs/LocksTable.lean; the Go memory model as formalised in lean/Mqtt/Spec/Locks.lean; the race workload and report parser")
